------------------------------ MODULE MC_Swar ------------------------------
(* Exhaustive instance of Swar: every length from 0, every alignment, every  *)
(* placement of up to two matches, all contents for short lengths.           *)
EXTENDS Swar, TLC, Json
CONSTANTS MaxLen, DenseMax, Ops, NNs, Families, Emit
VARIABLES in, st, meta
Mk(op, nn, b, h) == [op |-> op, nn |-> nn, base |-> b, hay |-> h]
Init ==
  /\ \E op \in Ops : \E nn \in NNs : \E b \in 0..WB - 1 :
       /\ (op = "count" => nn = 1)
       /\ \/ /\ "sparse" \in Families
             /\ \E n \in 0..MaxLen : \E p1 \in 0..n : \E p2 \in p1..n :
                  /\ (p1 = 0 => p2 = 0)
                  /\ in = Mk(op, nn, b, [i \in 1..n |-> IF i = p1 \/ i = p2 THEN 1 ELSE 0])
                  /\ meta = [fam |-> "sparse", fill |-> 0, pts |-> {p - 1 : p \in {p1, p2} \ {0}}]
          \/ /\ "holes" \in Families
             /\ \E n \in 0..MaxLen : \E p1 \in 0..n : \E p2 \in p1..n :
                  /\ (p1 = 0 => p2 = 0)
                  /\ in = Mk(op, nn, b, [i \in 1..n |-> IF i = p1 \/ i = p2 THEN 0 ELSE 1])
                  /\ meta = [fam |-> "holes", fill |-> 1, pts |-> {p - 1 : p \in {p1, p2} \ {0}}]
          \/ /\ "dense" \in Families
             /\ \E n \in 0..DenseMax : \E h \in [1..n -> {0, 1}] :
                  /\ in = Mk(op, nn, b, h)
                  /\ meta = [fam |-> "dense", fill |-> 0, pts |-> {p - 1 : p \in {q \in 1..n : h[q] = 1}}]
  /\ st = Init0(in)
Next == st.pc # "done" /\ st' = Step(in, st) /\ UNCHANGED <<in, meta>>
ResultIsOracle == st.pc = "done" => st.res = Oracle(in)
Safe == LoadsOK(in, st)
NoBad == ~st.bad
Linear == StepsLinear(in, st)
BitTrick == HasZeroByteExact(2, 4) /\ HasZeroByteExact(4, 2) /\ HasZeroByteExact(3, 3) /\ HasZeroByteExact(2, 5)
ASSUME BitTrick
Vector ==
  [m |-> "swar", vb |-> WB, op |-> in.op, nn |-> in.nn, base |-> in.base,
   len |-> Len(in.hay), fam |-> meta.fam, fill |-> meta.fill, pts |-> meta.pts,
   res |-> st.res, loads |-> st.loads, arms |-> st.arms, steps |-> st.steps]
EmitReplay == (Emit /\ st.pc = "done") => PrintT(<<"REPLAY", ToJson(Vector)>>)
=============================================================================
