//! S->I replay of MemchrIter behaviours (call histories) on every iterator of
//! every backend: returned values, size_hint bracket, count() of a clone and
//! the future of a clone taken mid-iteration must all equal the model's.
use crate::backends::{all_searchers, It};
use crate::r_generic::{check_events, fill_hay, value_row, STRETCH};
use crate::util::*;
use memchr::verif as hook;
use serde_json::{json, Value};

pub struct Opts {
    pub variants: usize,
    pub stretches: usize,
    pub only_top: bool,
    pub seed: u64,
}

struct OpRec {
    back: bool,
    ret: i64,
    rem: usize,
    up: usize,
}

fn map(ret: i64, off: usize, s: usize) -> i64 {
    if ret < 0 {
        -1
    } else {
        off as i64 + ret * s as i64
    }
}

pub fn replay_one(idx: usize, v: &Value, rep: &Report, cnt: &mut Counts, o: &Opts) {
    let len = get_u(v, "len");
    let pts: Vec<usize> = get_ints(v, "pts").into_iter().map(|x| x as usize).collect();
    let ops: Vec<OpRec> = v["ops"]
        .as_array()
        .unwrap()
        .iter()
        .map(|e| OpRec { back: get_s(e, "op") == "next_back", ret: get_i(e, "ret"), rem: get_u(e, "rem"), up: get_u(e, "up") })
        .collect();
    for var in 0..o.variants {
        let j = idx.wrapping_add(var).wrapping_add(o.seed as usize);
        let nn = 1 + (j % 3);
        let (needles, filler) = value_row(nn, j / 3);
        for st in 0..o.stretches {
            let (off, s, extra) = if st == 0 { (0, 1, 0) } else { STRETCH[(st + j) % STRETCH.len()] };
            let nlen = if len == 0 { off + extra } else { off + (len - 1) * s + 1 + extra };
            let ms: Vec<usize> = pts.iter().map(|m| off + m * s).collect();
            let mut p = Placed::new(nlen, j % 64, filler);
            p.fill_slack(needles[0]);
            fill_hay(p.slice_mut(), &ms, &needles, filler, j + st);
            let h = p.slice();
            let clone_at = if ops.is_empty() { 0 } else { j % ops.len() };
            for sr in all_searchers(&needles, o.only_top) {
                let run = json!({"backend": sr.backend(), "needles": needles, "filler": filler, "stretch": [off, s, extra], "len": nlen});
                let ctx = || json!({"vector": v, "run": run});
                hook::start(&[(h.as_ptr() as usize, h.len())]);
                let outcome = guard(|| {
                    let mut it = sr.iter(h);
                    let mut cl: Option<Box<dyn It>> = None;
                    let mut bad: Vec<String> = Vec::new();
                    for (k, op) in ops.iter().enumerate() {
                        if k == clone_at {
                            cl = Some(it.clone_box());
                        }
                        let got = opt_to_i(if op.back { it.next_back() } else { it.next() });
                        let want = map(op.ret, off, s);
                        if got != want {
                            bad.push(format!("step {k} {}: got {got}, model {want}", if op.back { "next_back" } else { "next" }));
                        }
                        let (lo, up) = it.size_hint();
                        if lo > op.rem || up.map_or(false, |u| u < op.rem) {
                            bad.push(format!("step {k}: size_hint ({lo},{up:?}) does not bracket the {} remaining matches", op.rem));
                        }
                        if s == 1 && off == 0 && extra == 0 && up != Some(op.up) {
                            bad.push(format!("DRIFT step {k}: size_hint upper {up:?}, model {}", op.up));
                        }
                        // count() of a clone = matches not yet yielded (C07 on histories)
                        let c = it.clone_box().count_rest();
                        if c != op.rem {
                            bad.push(format!("step {k}: count() of the partially consumed iterator is {c}, model {}", op.rem));
                        }
                    }
                    // the clone taken at step clone_at must have the same future
                    if let Some(mut c) = cl {
                        for (k, op) in ops.iter().enumerate().skip(clone_at) {
                            let got = opt_to_i(if op.back { c.next_back() } else { c.next() });
                            let want = map(op.ret, off, s);
                            if got != want {
                                bad.push(format!("clone taken at step {clone_at}, step {k}: got {got}, model {want}"));
                            }
                        }
                    }
                    bad
                });
                let (ev, _) = hook::stop();
                check_events(rep, &ev, h, sr.backend(), &ctx);
                cnt.add("iter_histories_exec", 1);
                cnt.add("iter_calls_exec", ops.len() as u64);
                match outcome {
                    Err(msg) => rep.finding(Class::Panic, &format!("{} iterator panicked: {msg}", sr.backend()), ctx()),
                    Ok(bad) => {
                        for b in bad {
                            if let Some(d) = b.strip_prefix("DRIFT ") {
                                rep.finding(Class::Drift, &format!("{} iterator {d}", sr.backend()), ctx());
                            } else if b.contains("count() of the partially") {
                                rep.finding(Class::Count, &format!("{} iterator {b}", sr.backend()), ctx());
                            } else {
                                rep.finding(Class::Result, &format!("{} iterator {b}", sr.backend()), ctx());
                            }
                        }
                    }
                }
            }
        }
    }
}

pub fn replay(vs: &[Value], rep: &Report, o: &Opts, threads: usize) {
    let idx: Vec<usize> = (0..vs.len()).collect();
    par_chunks(&idx, threads, |_, ch| {
        let mut cnt = Counts::default();
        for &i in ch {
            replay_one(i, &vs[i], rep, &mut cnt, o);
            cnt.add("vectors", 1);
        }
        rep.merge_counts(&cnt.0);
    });
    for v in vs.iter().rev().take(2) {
        rep.sample(v.clone());
    }
}

/// C17 for the memchr family: the top-level functions and iterators are called
/// directly (no boxing by the harness) under the counting allocator.
pub fn alloc_probe(vs: &[Value], rep: &Report, threads: usize, seed: u64) {
    let idx: Vec<usize> = (0..vs.len()).collect();
    par_chunks(&idx, threads, |_, ch| {
        let mut cnt = Counts::default();
        for &i in ch {
            let v = &vs[i];
            let len = get_u(v, "len");
            let pts: Vec<usize> = get_ints(v, "pts").into_iter().map(|x| x as usize).collect();
            let j = i.wrapping_add(seed as usize);
            for st in 0..3 {
                let (off, s, extra) = if st == 0 { (0, 1, 0) } else { STRETCH[(st + j) % STRETCH.len()] };
                let nlen = if len == 0 { off + extra } else { off + (len - 1) * s + 1 + extra };
                let ms: Vec<usize> = pts.iter().map(|m| off + m * s).collect();
                let (n3, filler) = value_row(3, j);
                let mut h = vec![filler; nlen];
                fill_hay(&mut h, &ms, &n3, filler, j);
                let a0 = allocs();
                let r = guard(|| {
                    let mut acc = 0usize;
                    acc += memchr::memchr(n3[0], &h).unwrap_or(0);
                    acc += memchr::memchr2(n3[0], n3[1], &h).unwrap_or(0);
                    acc += memchr::memchr3(n3[0], n3[1], n3[2], &h).unwrap_or(0);
                    acc += memchr::memrchr(n3[0], &h).unwrap_or(0);
                    acc += memchr::memrchr2(n3[0], n3[1], &h).unwrap_or(0);
                    acc += memchr::memrchr3(n3[0], n3[1], n3[2], &h).unwrap_or(0);
                    let mut it = memchr::memchr_iter(n3[0], &h);
                    while let Some(x) = Iterator::next(&mut it) {
                        acc += x;
                        if let Some(y) = DoubleEndedIterator::next_back(&mut it) {
                            acc += y;
                        }
                    }
                    acc += memchr::memchr2_iter(n3[0], n3[1], &h).count();
                    acc += memchr::memchr3_iter(n3[0], n3[1], n3[2], &h).rev().count();
                    acc += memchr::memchr_iter(n3[1], &h).count();
                    acc += memchr::arch::all::memchr::One::new(n3[0]).iter(&h).count();
                    acc += memchr::arch::all::memchr::Three::new(n3[0], n3[1], n3[2]).find(&h).unwrap_or(0);
                    acc
                });
                let al = allocs() - a0;
                cnt.add("alloc_probe_exec", 12);
                if r.is_ok() && al != 0 {
                    rep.finding(Class::Alloc, &format!("memchr-family functions/iterators performed {al} heap allocation(s)"), json!({"vector": v, "run": {"stretch": [off, s, extra]}}));
                }
            }
            cnt.add("vectors", 1);
        }
        rep.merge_counts(&cnt.0);
    });
}
