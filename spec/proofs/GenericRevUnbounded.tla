------------------------- MODULE GenericRevUnbounded -------------------------
(***************************************************************************)
(* Unbounded supplement to GenericMemchr (C02/C05), proved with TLAPS: the *)
(* REVERSE scan of generic::One/Two/Three::rfind_raw for arbitrary vector  *)
(* width V, unroll factor U, haystack length N >= V, end alignment         *)
(* (abstracted: the first aligned cursor c1 is any value in N-V+1 .. N,    *)
(* i.e. end - (end & ALIGN) with end & ALIGN in 0..V-1) and match set M.   *)
(*   head : chunk [N - V, N);             cur := c1                        *)
(*   loop : while cur >= U*V (only if N >= U*V): cur -= U*V; U chunks      *)
(*   vec  : while cur >= V: cur -= V; chunk at cur                         *)
(*   tail : if cur > 0: chunk at 0                                         *)
(* A chunk with a match ends the search with the greatest match in it.     *)
(***************************************************************************)
EXTENDS Integers, TLAPS

CONSTANTS V, U, N, M, c1
ASSUME VAssump == V \in Nat /\ V >= 1
ASSUME UAssump == U \in Nat /\ U >= 1
ASSUME NAssump == N \in Nat /\ N >= V
ASSUME MAssump == M \subseteq 0..(N - 1)
ASSUME CAssump == c1 \in (N - V + 1)..N

VARIABLES pc, cur, res, lo, hi

vars == <<pc, cur, res, lo, hi>>

HasMatch(a, b) == \E p \in M : a <= p /\ p < b
IsLastIn(r, a, b) == r \in M /\ a <= r /\ r < b /\ \A q \in M : (a <= q /\ q < b) => q <= r

Init == pc = "head" /\ cur = N /\ res = -2 /\ lo = 0 /\ hi = 0

Head == /\ pc = "head"
        /\ lo' = N - V /\ hi' = N
        /\ IF HasMatch(N - V, N)
           THEN /\ \E r \in M : IsLastIn(r, N - V, N) /\ res' = r
                /\ pc' = "done" /\ cur' = cur
           ELSE /\ cur' = c1 /\ res' = res
                /\ pc' = IF N >= U * V THEN "loop" ELSE "vec"
Loop == /\ pc = "loop"
        /\ IF cur >= U * V
           THEN /\ lo' = cur - U * V /\ hi' = cur
                /\ cur' = cur - U * V
                /\ IF HasMatch(cur - U * V, cur)
                   THEN /\ \E r \in M : IsLastIn(r, cur - U * V, cur) /\ res' = r
                        /\ pc' = "done"
                   ELSE res' = res /\ pc' = "loop"
           ELSE pc' = "vec" /\ UNCHANGED <<cur, res, lo, hi>>
Vec == /\ pc = "vec"
       /\ IF cur >= V
          THEN /\ lo' = cur - V /\ hi' = cur
               /\ cur' = cur - V
               /\ IF HasMatch(cur - V, cur)
                  THEN /\ \E r \in M : IsLastIn(r, cur - V, cur) /\ res' = r
                       /\ pc' = "done"
                  ELSE res' = res /\ pc' = "vec"
          ELSE pc' = "tail" /\ UNCHANGED <<cur, res, lo, hi>>
Tail == /\ pc = "tail"
        /\ IF cur > 0
           THEN /\ lo' = 0 /\ hi' = V
                /\ cur' = cur
                /\ IF HasMatch(0, V)
                   THEN \E r \in M : IsLastIn(r, 0, V) /\ res' = r
                   ELSE res' = -1
                /\ pc' = "done"
           ELSE res' = -1 /\ pc' = "done" /\ UNCHANGED <<cur, lo, hi>>
Next == Head \/ Loop \/ Vec \/ Tail
Spec == Init /\ [][Next]_vars

TypeOK == /\ pc \in {"head", "loop", "vec", "tail", "done"}
          /\ cur \in Int /\ res \in Int /\ lo \in Int /\ hi \in Int
LoadsInBounds == 0 <= lo /\ lo <= hi /\ hi <= N
\* while scanning, nothing at or after the cursor matches
Scanned == pc \in {"loop", "vec", "tail"} => (cur >= 0 /\ cur <= N /\ ~HasMatch(cur, N) /\ (pc = "tail" => cur < V))
Correct == pc = "done" => \/ (res = -1 /\ ~HasMatch(0, N))
                          \/ (res \in M /\ \A q \in M : q <= res)
Inv == TypeOK /\ LoadsInBounds /\ Scanned /\ Correct

THEOREM InitInv == Init => Inv
  BY VAssump, NAssump DEF Init, Inv, TypeOK, LoadsInBounds, Scanned, Correct

THEOREM NextInv == Inv /\ [Next]_vars => Inv'
<1> SUFFICES ASSUME Inv, [Next]_vars PROVE Inv'
  OBVIOUS
<1> USE VAssump, UAssump, NAssump, MAssump, CAssump
<1>0. U * V \in Nat /\ U * V >= V
  BY VAssump, UAssump
<1>1. CASE Head
  BY <1>1, <1>0 DEF Head, Inv, TypeOK, LoadsInBounds, Scanned, Correct, HasMatch, IsLastIn
<1>2. CASE Loop
  BY <1>2, <1>0 DEF Loop, Inv, TypeOK, LoadsInBounds, Scanned, Correct, HasMatch, IsLastIn
<1>3. CASE Vec
  BY <1>3, <1>0 DEF Vec, Inv, TypeOK, LoadsInBounds, Scanned, Correct, HasMatch, IsLastIn
<1>4. CASE Tail
  BY <1>4, <1>0 DEF Tail, Inv, TypeOK, LoadsInBounds, Scanned, Correct, HasMatch, IsLastIn
<1>5. CASE UNCHANGED vars
  BY <1>5 DEF vars, Inv, TypeOK, LoadsInBounds, Scanned, Correct, HasMatch
<1> QED BY <1>1, <1>2, <1>3, <1>4, <1>5 DEF Next

THEOREM Safety == Spec => []Inv
  BY InitInv, NextInv, PTL DEF Spec
=============================================================================
