----------------------------- MODULE Trace_Cost -----------------------------
(***************************************************************************)
(* I->S validator for C13.  Each record of the trace (ndjson, written by   *)
(* the recorder from the hooks' deterministic step counters) is one        *)
(* execution of build / find / rfind / find_iter / rfind_iter of the real  *)
(* code on an adversarial input of the stated sizes.  The cost model is    *)
(* the one the L-models carry (`cmps`, `pre`, `chunks`, `hashes`, `steps`):*)
(* one unit per 4/2/1-byte memcmp step, Two-Way comparison or outer        *)
(* iteration, preprocessing step, hash update, packed-pair chunk,          *)
(* prefilter call.  Verdict: Work <= CMUL * (hlen + nlen) + CADD.          *)
(* A record that breaks the bound is reported and counted; the             *)
(* postcondition only checks that every record was consumed.               *)
(***************************************************************************)
EXTENDS Integers, Sequences, TLC, Json, IOUtils

CONSTANTS CMUL, CADD

Rec == ndJsonDeserialize(IOEnv.TRACE)

VARIABLES l, nviol, maxq

Work(r) == r.ticks.cmp + r.ticks.tw + r.ticks.rk + r.ticks.pp + r.ticks.pre + r.ticks.prep + r.ticks.mc
Size(r) == r.hlen + r.nlen
\* the build operations only see the needle
Bound(r) == IF r.op \in {"build_forward", "build_reverse"} THEN CMUL * r.nlen + CADD ELSE CMUL * Size(r) + CADD
Linear(r) == Work(r) <= Bound(r)
\* work per 100 bytes, computed without leaving TLC's 32-bit integers (the recorder saturates each counter at 2^27)
Q(r) == Work(r) \div ((Size(r) \div 100) + 1)

Init == l = 1 /\ nviol = 0 /\ maxq = 0
Next == /\ l <= Len(Rec)
        /\ LET r == Rec[l] IN
           /\ nviol' = IF Linear(r) THEN nviol ELSE nviol + 1
           /\ maxq' = IF Q(r) > maxq THEN Q(r) ELSE maxq
           /\ IF Linear(r) THEN TRUE ELSE PrintT(<<"VIOLATION", l, r.family, r.op, Work(r), Bound(r)>>)
        /\ l' = l + 1
AllConsumed == TLCGet("stats").diameter - 1 = Len(Rec)
Summary == (l = Len(Rec) + 1) => PrintT(<<"SUMMARY", Len(Rec), nviol, maxq>>)
=============================================================================
