//! Shared helpers: reporter, PRNG, placed buffers, guard pages, panic capture.
#![allow(dead_code)]

use serde_json::{json, Map, Value};
use std::collections::BTreeMap;
use std::sync::Mutex;

/// Small deterministic PRNG (splitmix64 / xorshift).
#[derive(Clone)]
pub struct Rng(pub u64);
impl Rng {
    pub fn new(seed: u64) -> Rng {
        Rng(seed.wrapping_mul(0x9E3779B97F4A7C15) ^ 0xD1B54A32D192ED03)
    }
    pub fn next(&mut self) -> u64 {
        self.0 = self.0.wrapping_add(0x9E3779B97F4A7C15);
        let mut z = self.0;
        z = (z ^ (z >> 30)).wrapping_mul(0xBF58476D1CE4E5B9);
        z = (z ^ (z >> 27)).wrapping_mul(0x94D049BB133111EB);
        z ^ (z >> 31)
    }
    pub fn below(&mut self, n: usize) -> usize {
        if n == 0 {
            0
        } else {
            (self.next() % n as u64) as usize
        }
    }
    pub fn range(&mut self, lo: usize, hi: usize) -> usize {
        lo + self.below(hi - lo + 1)
    }
    pub fn byte(&mut self) -> u8 {
        self.next() as u8
    }
    pub fn chance(&mut self, num: usize, den: usize) -> bool {
        self.below(den) < num
    }
    pub fn pick<'a, T>(&mut self, xs: &'a [T]) -> &'a T {
        &xs[self.below(xs.len())]
    }
}

/// Classes of findings. Verdict classes can become VIOLATIONs; `Drift` never.
#[derive(Clone, Copy, Debug, PartialEq, Eq, PartialOrd, Ord)]
pub enum Class {
    Result,     // returned value differs from the oracle value supplied by TLC
    Count,      // count() of a partially consumed iterator differs from the oracle
    Oob,        // a load outside the slices given
    Misaligned, // an aligned load at an unaligned address
    Panic,      // panic inside the documented domain / missing documented panic
    Alloc,      // heap allocation in a non-owning call
    Pair,       // a finder reports a different pair / minimum length than it was built with
    Drift,      // conformance only: load sequence / route / steps differ from L-model
}
impl Class {
    pub fn name(self) -> &'static str {
        match self {
            Class::Result => "result",
            Class::Count => "count",
            Class::Oob => "oob",
            Class::Misaligned => "misaligned",
            Class::Panic => "panic",
            Class::Alloc => "alloc",
            Class::Pair => "pair",
            Class::Drift => "drift",
        }
    }
}

#[derive(Default)]
pub struct ReportInner {
    pub findings: BTreeMap<&'static str, Vec<Value>>,
    pub finding_counts: BTreeMap<&'static str, u64>,
    pub counters: BTreeMap<String, u64>,
    pub samples: Vec<Value>,
}

/// Thread-safe accumulator for one harness run.
#[derive(Default)]
pub struct Report(pub Mutex<ReportInner>);

pub const MAX_KEEP: usize = 40;

impl Report {
    pub fn finding(&self, class: Class, what: &str, ctx: Value) {
        let mut r = self.0.lock().unwrap();
        *r.finding_counts.entry(class.name()).or_insert(0) += 1;
        let v = r.findings.entry(class.name()).or_default();
        if v.len() < MAX_KEEP {
            v.push(json!({"class": class.name(), "what": what, "ctx": ctx}));
        }
    }
    pub fn count(&self, key: &str, n: u64) {
        let mut r = self.0.lock().unwrap();
        *r.counters.entry(key.to_string()).or_insert(0) += n;
    }
    pub fn merge_counts(&self, local: &BTreeMap<String, u64>) {
        let mut r = self.0.lock().unwrap();
        for (k, v) in local {
            *r.counters.entry(k.clone()).or_insert(0) += v;
        }
    }
    pub fn sample(&self, v: Value) {
        let mut r = self.0.lock().unwrap();
        if r.samples.len() < 8 {
            r.samples.push(v);
        }
    }
    pub fn to_json(&self) -> Value {
        let r = self.0.lock().unwrap();
        let mut f = Map::new();
        for (k, v) in &r.findings {
            f.insert(k.to_string(), Value::Array(v.clone()));
        }
        json!({
            "findings": f,
            "finding_counts": r.finding_counts,
            "counters": r.counters,
            "samples": r.samples,
        })
    }
}

/// Local (per-thread) counters, merged into the report at the end.
#[derive(Default)]
pub struct Counts(pub BTreeMap<String, u64>);
impl Counts {
    pub fn add(&mut self, k: &str, n: u64) {
        if let Some(v) = self.0.get_mut(k) {
            *v += n;
        } else {
            self.0.insert(k.to_string(), n);
        }
    }
}

/// A buffer in which a slice of `len` bytes is placed at an address that is
/// congruent to `align_off` modulo 64.
pub struct Placed {
    buf: Vec<u8>,
    off: usize,
    len: usize,
}
impl Placed {
    pub fn new(len: usize, align_off: usize, fill: u8) -> Placed {
        let buf = vec![fill; len + 192];
        let a = buf.as_ptr() as usize;
        // leave at least 64 bytes of slack before the slice
        let mut off = 64;
        while (a + off) % 64 != align_off % 64 {
            off += 1;
        }
        Placed { buf, off, len }
    }
    pub fn slice(&self) -> &[u8] {
        &self.buf[self.off..self.off + self.len]
    }
    pub fn slice_mut(&mut self) -> &mut [u8] {
        &mut self.buf[self.off..self.off + self.len]
    }
    /// Fill the slack around the slice with `b` (so over-reads see decoys).
    pub fn fill_slack(&mut self, b: u8) {
        let (o, l) = (self.off, self.len);
        for x in &mut self.buf[..o] {
            *x = b;
        }
        for x in &mut self.buf[o + l..] {
            *x = b;
        }
    }
}

extern "C" {
    fn mmap(addr: *mut u8, len: usize, prot: i32, flags: i32, fd: i32, off: i64) -> *mut u8;
    fn mprotect(addr: *mut u8, len: usize, prot: i32) -> i32;
    fn munmap(addr: *mut u8, len: usize) -> i32;
}
const PROT_NONE: i32 = 0;
const PROT_RW: i32 = 3;
const MAP_PRIVATE_ANON: i32 = 0x22;
pub const PAGE: usize = 4096;

/// `n` readable pages surrounded by PROT_NONE pages on both sides.
pub struct Guarded {
    base: *mut u8,
    pages: usize,
}
unsafe impl Send for Guarded {}
impl Guarded {
    pub fn new(pages: usize) -> Guarded {
        unsafe {
            let total = (pages + 2) * PAGE;
            let base = mmap(core::ptr::null_mut(), total, PROT_RW, MAP_PRIVATE_ANON, -1, 0);
            assert!(!base.is_null() && base as isize != -1, "mmap failed");
            assert_eq!(0, mprotect(base, PAGE, PROT_NONE));
            assert_eq!(0, mprotect(base.add((pages + 1) * PAGE), PAGE, PROT_NONE));
            Guarded { base, pages }
        }
    }
    fn data(&self) -> *mut u8 {
        unsafe { self.base.add(PAGE) }
    }
    pub fn cap(&self) -> usize {
        self.pages * PAGE
    }
    /// Copy `s` so that it ends exactly at the trailing guard page.
    pub fn at_end(&mut self, s: &[u8]) -> &[u8] {
        assert!(s.len() <= self.cap());
        unsafe {
            let p = self.data().add(self.cap() - s.len());
            core::ptr::copy_nonoverlapping(s.as_ptr(), p, s.len());
            core::slice::from_raw_parts(p, s.len())
        }
    }
    /// Copy `s` so that it starts exactly after the leading guard page.
    pub fn at_start(&mut self, s: &[u8]) -> &[u8] {
        assert!(s.len() <= self.cap());
        unsafe {
            let p = self.data();
            core::ptr::copy_nonoverlapping(s.as_ptr(), p, s.len());
            core::slice::from_raw_parts(p, s.len())
        }
    }
    /// Fill all readable bytes.
    pub fn fill(&mut self, b: u8) {
        unsafe { core::ptr::write_bytes(self.data(), b, self.cap()) }
    }
}
impl Drop for Guarded {
    fn drop(&mut self) {
        unsafe {
            munmap(self.base, (self.pages + 2) * PAGE);
        }
    }
}

thread_local! {
    static GUARD_DEPTH: std::cell::Cell<usize> = std::cell::Cell::new(0);
}

/// Run `f`, turning a panic into `Err(message)`.
pub fn guard<T>(f: impl FnOnce() -> T) -> Result<T, String> {
    GUARD_DEPTH.with(|d| d.set(d.get() + 1));
    let r = std::panic::catch_unwind(std::panic::AssertUnwindSafe(f));
    GUARD_DEPTH.with(|d| d.set(d.get() - 1));
    match r {
        Ok(v) => Ok(v),
        Err(e) => {
            let msg = if let Some(s) = e.downcast_ref::<&str>() {
                s.to_string()
            } else if let Some(s) = e.downcast_ref::<String>() {
                s.clone()
            } else {
                "panic".to_string()
            };
            Err(msg)
        }
    }
}

/// Panics caught by `guard` are data and stay silent; a panic outside any `guard` kills the process, and its
/// location is printed in the standard format so that the driver can tell a panic raised inside the crate under
/// test (an observation) from one of the harness itself (a tool error).
pub fn quiet_panics() {
    std::panic::set_hook(Box::new(|info| {
        if GUARD_DEPTH.with(|d| d.get()) == 0 {
            let loc = info.location().map(|l| format!("{}:{}:{}", l.file(), l.line(), l.column())).unwrap_or_default();
            let msg = if let Some(s) = info.payload().downcast_ref::<&str>() {
                s.to_string()
            } else if let Some(s) = info.payload().downcast_ref::<String>() {
                s.clone()
            } else {
                "panic".to_string()
            };
            eprintln!("thread '{}' panicked at {}:\n{}", std::thread::current().name().unwrap_or("?"), loc, msg);
        }
    }));
}

pub fn opt_to_i(r: Option<usize>) -> i64 {
    match r {
        Some(i) => i as i64,
        None => -1,
    }
}

pub fn get_i(v: &Value, k: &str) -> i64 {
    v.get(k).and_then(|x| x.as_i64()).unwrap_or_else(|| panic!("missing int field {k} in {v}"))
}
pub fn get_u(v: &Value, k: &str) -> usize {
    get_i(v, k) as usize
}
pub fn get_s<'a>(v: &'a Value, k: &str) -> &'a str {
    v.get(k).and_then(|x| x.as_str()).unwrap_or_else(|| panic!("missing str field {k} in {v}"))
}
pub fn get_bytes(v: &Value, k: &str) -> Vec<u8> {
    v.get(k)
        .and_then(|x| x.as_array())
        .unwrap_or_else(|| panic!("missing array field {k} in {v}"))
        .iter()
        .map(|x| x.as_u64().unwrap() as u8)
        .collect()
}
pub fn get_ints(v: &Value, k: &str) -> Vec<i64> {
    v.get(k)
        .and_then(|x| x.as_array())
        .unwrap_or_else(|| panic!("missing array field {k} in {v}"))
        .iter()
        .map(|x| x.as_i64().unwrap())
        .collect()
}

/// Run `work(chunk_index, items)` over `items` split across `threads` threads.
pub fn par_chunks<T: Sync>(items: &[T], threads: usize, work: impl Fn(usize, &[T]) + Sync) {
    let n = items.len();
    if n == 0 {
        return;
    }
    let threads = threads.max(1).min(n);
    let per = (n + threads - 1) / threads;
    std::thread::scope(|s| {
        for (i, ch) in items.chunks(per).enumerate() {
            let w = &work;
            s.spawn(move || w(i, ch));
        }
    });
}

// ---------------------------------------------------------------------------
// Process isolation: run chunks of work in forked children so that a fault
// (SIGSEGV from a guard page, SIGABRT from an unwinding-free panic, SIGILL) is
// attributed to one input instead of killing the run.

extern "C" {
    fn fork() -> i32;
    fn waitpid(pid: i32, status: *mut i32, opts: i32) -> i32;
    fn _exit(code: i32) -> !;
}

impl Report {
    /// Merge a report serialised by `to_json` (from a child process).
    pub fn merge_json(&self, v: &Value) {
        let mut r = self.0.lock().unwrap();
        if let Some(c) = v.get("counters").and_then(|x| x.as_object()) {
            for (k, n) in c {
                *r.counters.entry(k.clone()).or_insert(0) += n.as_u64().unwrap_or(0);
            }
        }
        if let Some(c) = v.get("finding_counts").and_then(|x| x.as_object()) {
            for (k, n) in c {
                let key = class_key(k);
                *r.finding_counts.entry(key).or_insert(0) += n.as_u64().unwrap_or(0);
            }
        }
        if let Some(f) = v.get("findings").and_then(|x| x.as_object()) {
            for (k, items) in f {
                let key = class_key(k);
                let dst = r.findings.entry(key).or_default();
                for it in items.as_array().unwrap() {
                    if dst.len() < MAX_KEEP {
                        dst.push(it.clone());
                    }
                }
            }
        }
        if let Some(s) = v.get("samples").and_then(|x| x.as_array()) {
            for it in s {
                if r.samples.len() < 8 {
                    r.samples.push(it.clone());
                }
            }
        }
    }
}

fn class_key(k: &str) -> &'static str {
    for c in [Class::Result, Class::Count, Class::Oob, Class::Misaligned, Class::Panic, Class::Alloc, Class::Pair, Class::Drift] {
        if c.name() == k {
            return c.name();
        }
    }
    "result"
}

/// Outcome of one forked child: Ok(report json) or Err(signal number / exit code).
fn run_child(range: std::ops::Range<usize>, tmp: &str, work: &dyn Fn(std::ops::Range<usize>, &Report)) -> i32 {
    unsafe {
        let pid = fork();
        assert!(pid >= 0, "fork failed");
        if pid == 0 {
            let rep = Report::default();
            work(range, &rep);
            let s = serde_json::to_string(&rep.to_json()).unwrap();
            let _ = std::fs::write(tmp, s);
            _exit(0);
        }
        pid
    }
}

fn wait_child(pid: i32) -> i32 {
    let mut status: i32 = 0;
    unsafe {
        waitpid(pid, &mut status, 0);
    }
    status
}

/// Run `work` over 0..n in forked children of `chunk` items, `par` at a time.
/// Returns the list of (index, wait status) of single items whose child died.
pub fn run_isolated(
    n: usize,
    chunk: usize,
    par: usize,
    tmpdir: &str,
    rep: &Report,
    work: &dyn Fn(std::ops::Range<usize>, &Report),
) -> Vec<(usize, i32)> {
    std::fs::create_dir_all(tmpdir).unwrap();
    let mut crashes = Vec::new();
    let mut ranges: Vec<std::ops::Range<usize>> = Vec::new();
    let mut i = 0;
    while i < n {
        ranges.push(i..(i + chunk).min(n));
        i += chunk;
    }
    let mut pending: Vec<std::ops::Range<usize>> = Vec::new();
    let mut running: Vec<(i32, std::ops::Range<usize>, String)> = Vec::new();
    let mut queue = ranges.into_iter();
    let mut serial = 0usize;
    loop {
        while running.len() < par.max(1) {
            let next = pending.pop().or_else(|| queue.next());
            match next {
                None => break,
                Some(r) => {
                    serial += 1;
                    let tmp = format!("{tmpdir}/c{serial}.json");
                    let pid = run_child(r.clone(), &tmp, work);
                    running.push((pid, r, tmp));
                }
            }
        }
        if running.is_empty() {
            break;
        }
        let (pid, r, tmp) = running.remove(0);
        let status = wait_child(pid);
        let ok = status == 0;
        if ok {
            if let Ok(s) = std::fs::read_to_string(&tmp) {
                if let Ok(v) = serde_json::from_str::<Value>(&s) {
                    rep.merge_json(&v);
                }
            }
        } else if r.len() <= 1 {
            crashes.push((r.start, status));
        } else if crashes.len() >= 8 {
            // enough distinct crashing inputs isolated: do not bisect the rest, attribute the chunk
            crashes.push((r.start, status));
        } else {
            let mid = r.start + r.len() / 2;
            pending.push(mid..r.end);
            pending.push(r.start..mid);
        }
        let _ = std::fs::remove_file(&tmp);
    }
    crashes
}

pub fn describe_status(status: i32) -> String {
    let sig = status & 0x7f;
    if sig != 0 {
        let name = match sig {
            11 => "SIGSEGV",
            7 => "SIGBUS",
            6 => "SIGABRT",
            4 => "SIGILL",
            8 => "SIGFPE",
            _ => "signal",
        };
        format!("{name} ({sig})")
    } else {
        format!("exit code {}", (status >> 8) & 0xff)
    }
}

// ---------------------------------------------------------------------------
// Counting allocator (C17): allocations are counted per thread.
pub struct Counting;
thread_local! {
    static ALLOCS: std::cell::Cell<u64> = const { std::cell::Cell::new(0) };
}
unsafe impl std::alloc::GlobalAlloc for Counting {
    unsafe fn alloc(&self, l: std::alloc::Layout) -> *mut u8 {
        let _ = ALLOCS.try_with(|c| c.set(c.get() + 1));
        std::alloc::System.alloc(l)
    }
    unsafe fn dealloc(&self, p: *mut u8, l: std::alloc::Layout) {
        std::alloc::System.dealloc(p, l)
    }
    unsafe fn alloc_zeroed(&self, l: std::alloc::Layout) -> *mut u8 {
        let _ = ALLOCS.try_with(|c| c.set(c.get() + 1));
        std::alloc::System.alloc_zeroed(l)
    }
    unsafe fn realloc(&self, p: *mut u8, l: std::alloc::Layout, n: usize) -> *mut u8 {
        let _ = ALLOCS.try_with(|c| c.set(c.get() + 1));
        std::alloc::System.realloc(p, l, n)
    }
}
/// Number of heap allocations performed so far by the current thread.
pub fn allocs() -> u64 {
    ALLOCS.try_with(|c| c.get()).unwrap_or(0)
}
