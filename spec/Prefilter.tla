------------------------------ MODULE Prefilter ------------------------------
(***************************************************************************)
(* Model of the adaptive prefilter of src/memmem/searcher.rs:              *)
(*  - PrefilterState {skips, skipped}: new = (1, 0); update(k); skips() =  *)
(*    skips - 1; is_effective(): inert (skips = 0) => false; skips() <     *)
(*    MIN_SKIPS => true; skipped >= MIN_SKIP_BYTES * skips() => true;      *)
(*    otherwise become inert (skips := 0) and answer false.                *)
(*  - Prefilter::find for the three kinds:                                 *)
(*      "vector"   : |h| < min_haystack_len => find_simple, else the       *)
(*                   packed-pair find_prefilter (L-model PP_Prefilter)     *)
(*      "fallback" : portable packed-pair prefilter (PP_PortablePrefilter) *)
(*      "none"     : no prefilter                                          *)
(*    find_simple = position of the rarest byte (pair index1) found by     *)
(*    memchr, minus its offset, saturating at 0.                           *)
(* MIN_SKIPS = 50, MIN_SKIP_BYTES = 8 in the code.  Both counters are u32  *)
(* and saturate at CTRMAX (2^32 - 1 in the code); the effectiveness test   *)
(* multiplies MIN_SKIP_BYTES * skips() in the same width.  MulSaturates =  *)
(* TRUE models the code after the fix commit "fix: avoid u32 overflow in   *)
(* PrefilterState::is_effective" (saturating_mul); FALSE models the        *)
(* original code, where the product overflows (ovf) once skips() reaches   *)
(* (CTRMAX + 1) / MIN_SKIP_BYTES -- a genuine defect found with this       *)
(* machinery (see known_findings.json and MC_PrefilterState).              *)
(***************************************************************************)
EXTENDS PackedPair

CONSTANTS MIN_SKIPS, MIN_SKIP_BYTES, CTRMAX, MulSaturates

PS_New == [skips |-> 1, skipped |-> 0]
PS_Inert(ps) == ps.skips = 0
PS_Skips(ps) == IF ps.skips = 0 THEN 0 ELSE ps.skips - 1
PS_Sat(x) == IF x > CTRMAX THEN CTRMAX ELSE x
PS_Update(ps, k) == [skips |-> PS_Sat(ps.skips + 1), skipped |-> IF k > CTRMAX THEN CTRMAX ELSE PS_Sat(ps.skipped + k)]
\* MIN_SKIP_BYTES * skips() in the counters' width: does the product leave the width?
PS_MulOverflows(ps) == ~PS_Inert(ps) /\ PS_Skips(ps) >= MIN_SKIPS /\ MIN_SKIP_BYTES * PS_Skips(ps) > CTRMAX
PS_Product(ps) == IF MulSaturates THEN PS_Sat(MIN_SKIP_BYTES * PS_Skips(ps)) ELSE (MIN_SKIP_BYTES * PS_Skips(ps)) % (CTRMAX + 1)
\* returns [eff, ps] -- is_effective may flip the state to inert
PS_Effective(ps) ==
  IF PS_Inert(ps) THEN [eff |-> FALSE, ps |-> ps]
  ELSE IF PS_Skips(ps) < MIN_SKIPS THEN [eff |-> TRUE, ps |-> ps]
  ELSE IF ps.skipped >= PS_Product(ps) THEN [eff |-> TRUE, ps |-> ps]
  ELSE [eff |-> FALSE, ps |-> [ps EXCEPT !.skips = 0]]

\* pre = [kind, i1, i2, vbs]; vbs = ascending vector widths of the finder (<<16>> for SSE2/NEON/simd128,
\* <<16, 32>> for the AVX2 facade, which holds an SSE2 instance for short haystacks)
PF_FindSimple(n, pre, h) ==
  LET f == FirstMatch(h, {At(n, pre.i1)}) IN IF f < 0 THEN -1 ELSE Max2(f - pre.i1, 0)
\* the widest instance whose minimum haystack length is met
PF_Width(pre, n, hl) ==
  LET ok == {k \in 1..Len(pre.vbs) : hl >= PP_MinLen(pre.vbs[k], n, pre.i1, pre.i2)} IN pre.vbs[SetMax(ok)]
PF_Find(n, pre, h) ==
  CASE pre.kind = "vector" ->
         IF Len(h) < PP_MinLen(pre.vbs[1], n, pre.i1, pre.i2) THEN [res |-> PF_FindSimple(n, pre, h), route |-> "simple"]
         ELSE LET in == [hay |-> h, needle |-> n, i1 |-> pre.i1, i2 |-> pre.i2, vb |-> PF_Width(pre, n, Len(h))] IN
              [res |-> PP_Prefilter(in).res, route |-> "vector"]
    [] pre.kind = "fallback" ->
         [res |-> PP_PortablePrefilter([hay |-> h, needle |-> n, i1 |-> pre.i1, i2 |-> pre.i2, vb |-> 1]).res, route |-> "portable"]

\* Pre::find: run the strategy, then update the state with the skipped distance
PF_PreFind(n, pre, h, ps) ==
  LET r == PF_Find(n, pre, h) IN
  [res |-> r.res, route |-> r.route, ps |-> PS_Update(ps, IF r.res < 0 THEN Len(h) ELSE r.res)]

\* a candidate never skips a real occurrence (what Two-Way relies on)
PF_NeverSkips(n, pre, h) ==
  LET r == PF_Find(n, pre, h).res  f == FindSub(h, n) IN f >= 0 => (r >= 0 /\ r <= f)
=============================================================================
