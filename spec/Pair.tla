-------------------------------- MODULE Pair --------------------------------
(***************************************************************************)
(* L-layer model of Pair::{with_ranker, with_indices}                      *)
(* (src/arch/all/packedpair/mod.rs).  `rank` is a function from byte       *)
(* symbols to ranks.  The scan visits needle positions 2 .. min(|n|,       *)
(* PAIRCAP) - 1 (PAIRCAP = 255 in the code: `.take(u8::MAX)`), so every    *)
(* selected offset is <= PAIRCAP - 1.                                      *)
(***************************************************************************)
EXTENDS ShiftOr, TLC

CONSTANT PAIRCAP

PR_None == [none |-> TRUE, i1 |-> 0, i2 |-> 0]
PR_Seed(n, rank) ==
  IF rank[At(n, 1)] < rank[At(n, 0)] THEN [r1 |-> At(n, 1), i1 |-> 1, r2 |-> At(n, 0), i2 |-> 0]
  ELSE [r1 |-> At(n, 0), i1 |-> 0, r2 |-> At(n, 1), i2 |-> 1]
PR_ScanStep(n, rank, st, i) ==
  LET b == At(n, i) IN
  IF rank[b] < rank[st.r1] THEN [r1 |-> b, i1 |-> i, r2 |-> st.r1, i2 |-> st.i1]
  ELSE IF b # st.r1 /\ rank[b] < rank[st.r2] THEN [st EXCEPT !.r2 = b, !.i2 = i]
  ELSE st
RECURSIVE PR_Scan(_, _, _, _)
PR_Scan(n, rank, st, i) ==
  IF i >= Min2(Len(n), PAIRCAP) THEN st ELSE PR_Scan(n, rank, TLCEval(PR_ScanStep(n, rank, st, i)), i + 1)   \* TLCEval: force the step (TLC passes arguments lazily)
PR_WithRanker(n, rank) ==
  IF Len(n) <= 1 THEN PR_None
  ELSE LET s == PR_Scan(n, rank, PR_Seed(n, rank), 2) IN [none |-> FALSE, i1 |-> s.i1, i2 |-> s.i2]
PR_WithIndices(n, a, b) ==
  IF a = b \/ a >= Len(n) \/ b >= Len(n) THEN PR_None ELSE [none |-> FALSE, i1 |-> a, i2 |-> b]

\* P-layer meaning (C19)
PR_Valid(n, p) ==
  IF Len(n) < 2 THEN p.none
  ELSE ~p.none /\ p.i1 # p.i2 /\ p.i1 < Len(n) /\ p.i2 < Len(n) /\ p.i1 <= PAIRCAP - 1 /\ p.i2 <= PAIRCAP - 1
PR_IndicesAccepts(n, a, b) == a # b /\ a < Len(n) /\ b < Len(n)
=============================================================================
