------------------------------- MODULE VecOps -------------------------------
(***************************************************************************)
(* F-layer lemma module: the bit-level formulas of the two MoveMask        *)
(* representations in src/vector.rs compute the lane-set operations that   *)
(* the L-models (GenericMemchr, PackedPair) use.                           *)
(*                                                                         *)
(* Sensible (x86-64, wasm): bit i = lane i.                                *)
(*   first_offset = trailing_zeros, last_offset = W - leading_zeros - 1,   *)
(*   count_ones = popcount, clear_least_significant_bit = m & (m - 1),     *)
(*   all_zeros_except_least_significant(n) = !((1 << n) - 1).              *)
(* Neon (aarch64): vshrn(.., 4) & 0x88..88: lane i at bit 4i+3.            *)
(*   first_offset = tz >> 2, last_offset = LANES - (lz >> 2) - 1,          *)
(*   count_ones = popcount (one bit per lane after the and),               *)
(*   all_zeros_except_least_significant(n) = !(((1 << n) << 2) - 1)        *)
(*   -- which keeps lane k iff 4k+3 >= n+2, i.e. it UNDER-masks; the       *)
(*   lemma states exactly that, and PackedPair.PP_Kept uses it.            *)
(* Masks are naturals; W = word bits (LANES for sensible, 4*LANES neon).   *)
(***************************************************************************)
EXTENDS Integers, FiniteSets, Bitwise

CONSTANT LANES       \* at most 7: the NEON word has 4*LANES bits and TLC integers are 32-bit

Pow2(n) == 2 ^ n
BitAt(m, i) == (m \div Pow2(i)) % 2
Bits(m, W) == {i \in 0..W - 1 : BitAt(m, i) = 1}
Tz(m, W) == IF m = 0 THEN W ELSE CHOOSE i \in Bits(m, W) : \A j \in Bits(m, W) : i <= j
Lz(m, W) == IF m = 0 THEN W ELSE W - 1 - (CHOOSE i \in Bits(m, W) : \A j \in Bits(m, W) : i >= j)
Popcount(m, W) == Cardinality(Bits(m, W))
NotW(m, W) == Pow2(W) - 1 - m
SetMinV(S) == CHOOSE x \in S : \A y \in S : x <= y
SetMaxV(S) == CHOOSE x \in S : \A y \in S : x >= y
RECURSIVE SumPow(_)
SumPow(S) == IF S = {} THEN 0 ELSE LET x == CHOOSE y \in S : TRUE IN Pow2(x) + SumPow(S \ {x})

\* ---- sensible ----
SW == LANES
SEnc(L) == SumPow(L)
SFirst(m) == Tz(m, SW)
SLast(m) == SW - Lz(m, SW) - 1
SCount(m) == Popcount(m, SW)
SClear(m) == m & (m - 1)
SAzels(n) == NotW(Pow2(n) - 1, SW)
SensibleOK ==
  \A L \in SUBSET (0..LANES - 1) :
    LET m == SEnc(L) IN
    /\ (L # {} => SFirst(m) = SetMinV(L) /\ SLast(m) = SetMaxV(L) /\ SClear(m) = SEnc(L \ {SetMinV(L)}))
    /\ SCount(m) = Cardinality(L)
    /\ (m # 0 <=> L # {})
    /\ \A n \in 0..LANES - 1 : (m & SAzels(n)) = SEnc({k \in L : k >= n})
    /\ \A K \in SUBSET (0..LANES - 1) : (m & SEnc(K)) = SEnc(L \cap K) /\ (m | SEnc(K)) = SEnc(L \cup K)

\* ---- neon ----
NW == 4 * LANES
NEnc(L) == SumPow({4 * k + 3 : k \in L})
NFirst(m) == Tz(m, NW) \div 4
NLast(m) == LANES - (Lz(m, NW) \div 4) - 1
NCount(m) == Popcount(m, NW)
NClear(m) == m & (m - 1)
NAzels(n) == NotW((Pow2(n) * 4) - 1, NW)
NeonOK ==
  \A L \in SUBSET (0..LANES - 1) :
    LET m == NEnc(L) IN
    /\ (L # {} => NFirst(m) = SetMinV(L) /\ NLast(m) = SetMaxV(L) /\ NClear(m) = NEnc(L \ {SetMinV(L)}))
    /\ NCount(m) = Cardinality(L)
    /\ (m # 0 <=> L # {})
    \* the code's formula keeps lane k iff 4k+3 >= n+2 (under-masking), NOT iff k >= n
    /\ \A n \in 0..LANES - 1 : (m & NAzels(n)) = NEnc({k \in L : 4 * k + 3 >= n + 2})
    /\ \A K \in SUBSET (0..LANES - 1) : (m & NEnc(K)) = NEnc(L \cap K) /\ (m | NEnc(K)) = NEnc(L \cup K)

\* the under-masked set always contains the exactly-masked one (so no candidate is lost) ...
NeonUnderMaskIsSuperset == \A n \in 0..LANES - 1 : {k \in 0..LANES - 1 : k >= n} \subseteq {k \in 0..LANES - 1 : 4 * k + 3 >= n + 2}
\* ... and is strictly larger for n >= 2: the deviation is real, not a modelling artefact
NeonUnderMaskDeviates == LANES >= 3 => \E n \in 0..LANES - 1 : {k \in 0..LANES - 1 : k >= n} # {k \in 0..LANES - 1 : 4 * k + 3 >= n + 2}

ASSUME SensibleOK
ASSUME NeonOK
ASSUME NeonUnderMaskIsSuperset
ASSUME NeonUnderMaskDeviates
=============================================================================
