//! S->I replay of GenericMemchr vectors emitted by TLC (MC_GenericMemchr):
//! (1) exactly, on the real generic code instantiated at the model's vector
//! width through the hook facades, comparing result (verdict), load bounds and
//! alignment (verdict) and the load sequence (conformance);
//! (2) on every real backend and the top-level API with the same match set;
//! (3) stretched (position i -> o + i*s) so that the same abstract behaviour
//! crosses real vector/loop boundaries; expected answers are the model's,
//! mapped through the same affine map.
use crate::backends::{all_searchers, Searcher};
use crate::util::*;
use memchr::verif as hook;
use serde_json::{json, Value};

#[derive(Clone, Copy, PartialEq, Eq, Debug)]
pub enum Op {
    Find,
    Rfind,
    Count,
}

pub struct GVec<'a> {
    pub vb: usize,
    pub op: Op,
    pub nn: usize,
    pub base: usize,
    pub len: usize,
    pub matches: Vec<usize>,
    pub res: i64,
    pub loads: Vec<(u8, i64)>,
    pub raw: &'a Value,
}

pub fn parse(v: &Value) -> GVec<'_> {
    let len = get_u(v, "len");
    let fill = get_i(v, "fill");
    let pts: Vec<usize> = get_ints(v, "pts").into_iter().map(|x| x as usize).collect();
    let matches: Vec<usize> = if fill == 0 {
        let mut p = pts.clone();
        p.sort();
        p
    } else {
        (0..len).filter(|i| !pts.contains(i)).collect()
    };
    let op = match get_s(v, "op") {
        "find" => Op::Find,
        "rfind" => Op::Rfind,
        _ => Op::Count,
    };
    let loads = v["loads"]
        .as_array()
        .unwrap()
        .iter()
        .map(|l| (l[0].as_str().unwrap().as_bytes()[0], l[1].as_i64().unwrap()))
        .collect();
    GVec { vb: get_u(v, "vb"), op, nn: get_u(v, "nn"), base: get_u(v, "base"), len, matches, res: get_i(v, "res"), loads, raw: v }
}

/// (needles, filler) value rows; the filler differs from every needle.
pub fn value_row(nn: usize, j: usize) -> (Vec<u8>, u8) {
    const T1: &[(u8, u8)] = &[
        (b'a', b'b'),
        (0x00, 0x01),
        (0xFF, 0xFE),
        (0x80, 0x00),
        (0x7F, 0xFF),
        (0x01, 0x00),
        (0x80, 0x81),
        (0x0A, 0x8A),
        (0xFE, 0xFF),
        (0x81, 0x01),
    ];
    const T2: &[(u8, u8, u8)] = &[
        (b'a', b'z', b'm'),
        (0x00, 0xFF, 0x80),
        (0x80, 0x80, 0x00),
        (0x01, 0x02, 0x03),
        (0xFF, 0x7F, 0xFE),
        (0x00, 0x01, 0x02),
        (0x7F, 0x80, 0x81),
        (b'\n', b'\r', b' '),
        (b'x', b'x', b'y'),
        (0xFF, 0xFF, 0x00),
    ];
    const T3: &[(u8, u8, u8, u8)] = &[
        (b'a', b'm', b'z', b'q'),
        (0x00, 0x80, 0xFF, 0x7F),
        (0x01, 0x01, 0x01, 0x00),
        (0xFF, 0xFE, 0xFD, 0xFC),
        (0x80, 0x00, 0x80, 0x01),
        (0x7F, 0x80, 0x81, 0x82),
        (b'<', b'>', b'&', b'"'),
        (b'x', b'y', b'x', b'z'),
        (b'x', b'x', b'y', b'z'),
        (b'x', b'y', b'y', b'z'),
        (0x00, 0xFF, 0x00, 0x01),
        (0x00, 0x00, 0xFF, 0x80),
        (0x80, 0x7F, 0x7F, 0xFF),
    ];
    match nn {
        1 => {
            let r = T1[j % T1.len()];
            (vec![r.0], r.1)
        }
        2 => {
            let r = T2[j % T2.len()];
            (vec![r.0, r.1], r.2)
        }
        _ => {
            let r = T3[j % T3.len()];
            (vec![r.0, r.1, r.2], r.3)
        }
    }
}

/// Write the haystack: positions in `matches` get a needle byte (which one
/// is chosen by `pat`), everything else the filler.
pub fn fill_hay(h: &mut [u8], matches: &[usize], needles: &[u8], filler: u8, pat: usize) {
    for b in h.iter_mut() {
        *b = filler;
    }
    let nn = needles.len();
    for (k, &m) in matches.iter().enumerate() {
        // the pattern decides which needle the FIRST match gets (every needle index is reached as
        // pat varies) and how the following matches rotate through the needles
        let which = match (pat / nn) % 3 {
            0 => (pat + k) % nn,
            1 => pat % nn,
            _ => (pat + m + k) % nn,
        };
        h[m] = needles[which];
    }
}

macro_rules! scaled_call {
    ($vb:expr, $nn:expr, $n:expr, $op:expr, $s:expr, $e:expr, [$($w:literal),+]) => {
        match $vb {
            $($w => scaled_call!(@one $w, $nn, $n, $op, $s, $e),)+
            _ => None,
        }
    };
    (@one $w:literal, $nn:expr, $n:expr, $op:expr, $s:expr, $e:expr) => {{
        let (s, e) = ($s, $e);
        let n = $n;
        unsafe {
            Some(match ($nn, $op) {
                (1, Op::Find) => ptr_i(hook::One::<$w>::new(n[0]).find_raw(s, e), s),
                (1, Op::Rfind) => ptr_i(hook::One::<$w>::new(n[0]).rfind_raw(s, e), s),
                (1, Op::Count) => hook::One::<$w>::new(n[0]).count_raw(s, e) as i64,
                (2, Op::Find) => ptr_i(hook::Two::<$w>::new(n[0], n[1]).find_raw(s, e), s),
                (2, Op::Rfind) => ptr_i(hook::Two::<$w>::new(n[0], n[1]).rfind_raw(s, e), s),
                (3, Op::Find) => ptr_i(hook::Three::<$w>::new(n[0], n[1], n[2]).find_raw(s, e), s),
                (3, Op::Rfind) => ptr_i(hook::Three::<$w>::new(n[0], n[1], n[2]).rfind_raw(s, e), s),
                _ => return None,
            })
        }
    }};
}

pub fn ptr_i(p: Option<*const u8>, start: *const u8) -> i64 {
    match p {
        Some(p) => p as i64 - start as i64,
        None => -1,
    }
}

/// Run the real generic code at width `vb`. None if the width/op is not instantiated.
pub fn run_scaled(vb: usize, nn: usize, n: &[u8], op: Op, h: &[u8]) -> Option<i64> {
    let s = h.as_ptr();
    let e = unsafe { s.add(h.len()) };
    scaled_call!(vb, nn, n, op, s, e, [2, 4, 8, 16, 32])
}

/// Check recorded load events against the slice: all inside, aligned kinds aligned.
pub fn check_events(
    rep: &Report,
    ev: &[hook::Event],
    h: &[u8],
    what: &str,
    ctx: &dyn Fn() -> Value,
) {
    let base = h.as_ptr() as usize;
    for e in ev {
        if e.kind == b'r' {
            continue;
        }
        if !e.inb {
            rep.finding(
                Class::Oob,
                &format!("{what}: load kind={} size={} at offset {} outside slice of {} bytes", e.kind as char, e.size, e.addr as i64 - base as i64, h.len()),
                ctx(),
            );
        }
        if (e.kind == b'a' || e.kind == b'w') && e.addr % e.size != 0 {
            rep.finding(
                Class::Misaligned,
                &format!("{what}: aligned load of {} bytes at address ≡ {} mod {}", e.size, e.addr % e.size, e.size),
                ctx(),
            );
        }
    }
}

pub const STRETCH: &[(usize, usize, usize)] = &[
    (0, 1, 0),
    (13, 1, 0),
    (0, 1, 37),
    (0, 3, 2),
    (5, 7, 3),
    (16, 16, 0),
    (31, 5, 0),
    (64, 1, 64),
    (1, 17, 1),
    (32, 2, 31),
    (7, 33, 0),
    (0, 64, 5),
];

fn expect_map(op: Op, res: i64, o: usize, s: usize) -> i64 {
    match op {
        Op::Count => res,
        _ => {
            if res < 0 {
                -1
            } else {
                o as i64 + res * s as i64
            }
        }
    }
}

/// Execute `op` through every entry point of one searcher; returns (entry, got).
/// The third component overrides the vector's expected value for entries whose answer is fixed by the
/// documentation (raw forms with start >= end return None / 0).
pub fn real_calls(sr: &dyn Searcher, op: Op, h: &[u8]) -> Vec<(&'static str, Result<i64, String>, Option<i64>)> {
    let s = h.as_ptr();
    let e = unsafe { s.add(h.len()) };
    let mut out: Vec<(&'static str, Result<i64, String>, Option<i64>)> = Vec::new();
    match op {
        Op::Find => {
            out.push(("find", guard(|| opt_to_i(sr.find(h))), None));
            if let Ok(Some(r)) = guard(|| unsafe { sr.find_raw(s, e) }).map(|x| x.map(|p| ptr_i(p, s))) {
                out.push(("find_raw", Ok(r), None));
                // the raw forms return None when start >= end (empty and inverted ranges)
                out.push(("find_raw(start == end)", guard(|| ptr_i(unsafe { sr.find_raw(s, s) }.unwrap(), s)), Some(-1)));
                out.push(("find_raw(start > end)", guard(|| ptr_i(unsafe { sr.find_raw(e, s) }.unwrap(), s)), Some(-1)));
            }
            out.push(("iter.next", guard(|| opt_to_i(sr.iter(h).next())), None));
        }
        Op::Rfind => {
            out.push(("rfind", guard(|| opt_to_i(sr.rfind(h))), None));
            if let Ok(Some(r)) = guard(|| unsafe { sr.rfind_raw(s, e) }).map(|x| x.map(|p| ptr_i(p, s))) {
                out.push(("rfind_raw", Ok(r), None));
                out.push(("rfind_raw(start == end)", guard(|| ptr_i(unsafe { sr.rfind_raw(e, e) }.unwrap(), s)), Some(-1)));
                out.push(("rfind_raw(start > end)", guard(|| ptr_i(unsafe { sr.rfind_raw(e, s) }.unwrap(), s)), Some(-1)));
            }
            out.push(("iter.next_back", guard(|| opt_to_i(sr.iter(h).next_back())), None));
        }
        Op::Count => {
            if let Ok(Some(c)) = guard(|| sr.count(h)) {
                out.push(("count", Ok(c as i64), None));
            }
            if let Ok(Some(c)) = guard(|| unsafe { sr.count_raw(s, e) }) {
                out.push(("count_raw", Ok(c as i64), None));
                out.push(("count_raw(start > end)", guard(|| unsafe { sr.count_raw(e, s) }.unwrap() as i64), Some(0)));
            }
            out.push(("iter.count", guard(|| sr.iter(h).count_rest() as i64), None));
        }
    }
    out
}

pub struct Opts {
    pub variants: usize,
    pub stretches: usize,
    pub only_top: bool,
    pub scaled: bool,
    pub seed: u64,
}

pub fn replay_one(idx: usize, v: &Value, rep: &Report, cnt: &mut Counts, o: &Opts) {
    let g = parse(v);
    let ctxv = |extra: Value| json!({"vector": g.raw, "run": extra});
    // Two and Three share the model's UNROLL = 2 structure: a vector with nn = 2 is executed with 2 and with 3 needles
    let nvar = if g.nn == 2 { o.variants * 2 } else { o.variants };
    for var in 0..nvar {
        let j = idx.wrapping_add(var).wrapping_add(o.seed as usize);
        let rnn = if g.nn == 2 && var % 2 == 1 { 3 } else { g.nn };
        let (needles, filler) = value_row(rnn, j / 2);
        // exact scaled replay on the first variant
        if var < 2 && (var == 0 || g.nn == 2) && o.scaled {
            let align = g.base + g.vb * (j % (64 / g.vb.max(1)).max(1));
            let mut p = Placed::new(g.len, align, filler);
            p.fill_slack(needles[0]);
            fill_hay(p.slice_mut(), &g.matches, &needles, filler, j);
            let h = p.slice();
            hook::start(&[(h.as_ptr() as usize, h.len())]);
            let got = guard(|| run_scaled(g.vb, rnn, &needles, g.op, h));
            let (ev, _) = hook::stop();
            let run = json!({"exec": "scaled", "vb": g.vb, "needles": needles, "filler": filler, "align": align % 64});
            match got {
                Err(msg) => rep.finding(Class::Panic, &format!("scaled generic code panicked: {msg}"), ctxv(run.clone())),
                Ok(None) => {}
                Ok(Some(r)) => {
                    cnt.add("scaled_exec", 1);
                    if r != g.res {
                        rep.finding(Class::Result, &format!("scaled generic {:?}: got {r}, oracle {}", g.op, g.res), ctxv(run.clone()));
                    }
                    check_events(rep, &ev, h, "scaled generic", &|| ctxv(run.clone()));
                    let base = h.as_ptr() as i64;
                    let obs: Vec<(u8, i64)> = ev.iter().filter(|e| e.kind == b'a' || e.kind == b'u').map(|e| (e.kind, e.addr as i64 - base)).collect();
                    if obs != g.loads {
                        cnt.add("drift_loads", 1);
                        rep.finding(
                            Class::Drift,
                            "load sequence of the real generic code differs from the L-model",
                            json!({"vector": g.raw, "observed": obs.iter().map(|(k, a)| json!([(*k as char).to_string(), a])).collect::<Vec<_>>()}),
                        );
                    } else {
                        cnt.add("conform_loads", 1);
                    }
                }
            }
        }
        // real backends, identity and stretched
        for st in 0..o.stretches.min(STRETCH.len()) {
            let (off, s, extra) = STRETCH[(st + if st == 0 { 0 } else { j }) % STRETCH.len()];
            let (off, s, extra) = if st == 0 { (0, 1, 0) } else { (off, s, extra) };
            let nlen = if g.len == 0 { off + extra } else { off + (g.len - 1) * s + 1 + extra };
            let ms: Vec<usize> = g.matches.iter().map(|m| off + m * s).collect();
            let align = if st == 0 { g.base + 16 * (j % 4) } else { (g.base * 7 + j) % 64 };
            let mut p = Placed::new(nlen, align, filler);
            p.fill_slack(needles[0]);
            fill_hay(p.slice_mut(), &ms, &needles, filler, j + st);
            let h = p.slice();
            let want = expect_map(g.op, g.res, off, s);
            for sr in all_searchers(&needles, o.only_top) {
                hook::start(&[(h.as_ptr() as usize, h.len())]);
                let calls = real_calls(&*sr, g.op, h);
                let (ev, _) = hook::stop();
                let run = json!({"exec": "real", "backend": sr.backend(), "needles": needles, "filler": filler,
                                 "stretch": [off, s, extra], "len": nlen, "align": align % 64, "expected": want});
                check_events(rep, &ev, h, sr.backend(), &|| ctxv(run.clone()));
                for (entry, got, fixed) in calls {
                    cnt.add("real_exec", 1);
                    let want = fixed.unwrap_or(want);
                    match got {
                        Err(msg) => rep.finding(Class::Panic, &format!("{}::{entry} panicked: {msg}", sr.backend()), ctxv(run.clone())),
                        Ok(r) => {
                            if r != want {
                                rep.finding(Class::Result, &format!("{}::{entry} returned {r}, oracle {want}", sr.backend()), ctxv(run.clone()));
                            }
                        }
                    }
                }
            }
        }
    }
}

