------------------------ MODULE GenericCountUnbounded ------------------------
(***************************************************************************)
(* Unbounded supplement to GenericMemchr (C07/C05), proved with TLAPS:     *)
(* generic::One::count_raw for arbitrary vector width V, unroll factor U,  *)
(* haystack length N >= V and start alignment (first aligned cursor c1 in  *)
(* 1..V).  Cnt(a, b) is the number of matching bytes in [a, b); the only   *)
(* facts used about it are that an empty range holds none and that         *)
(* adjacent ranges add up (CntAdd).                                        *)
(*   head : count bytes [0, c1) one by one;             cur := c1          *)
(*   loop : while cur + U*V <= N (only if N >= U*V): add the popcounts of  *)
(*          U aligned vectors                                              *)
(*   vec  : while cur + V <= N: add one vector's popcount                  *)
(*   tail : count bytes [cur, N) one by one                                *)
(* Theorem: on termination the sum is Cnt(0, N); every vector load is      *)
(* inside the haystack.                                                    *)
(***************************************************************************)
EXTENDS Integers, TLAPS

CONSTANTS V, U, N, c1, Cnt(_, _)
ASSUME VAssump == V \in Nat /\ V >= 1
ASSUME UAssump == U \in Nat /\ U >= 1
ASSUME NAssump == N \in Nat /\ N >= V
ASSUME CAssump == c1 \in 1..V
ASSUME CntType == \A a, b \in Int : Cnt(a, b) \in Nat
ASSUME CntEmpty == \A a \in Int : Cnt(a, a) = 0
ASSUME CntAdd == \A a, b, c \in Int : (a <= b /\ b <= c) => Cnt(a, b) + Cnt(b, c) = Cnt(a, c)

VARIABLES pc, cur, sum, lo, hi

vars == <<pc, cur, sum, lo, hi>>

Init == pc = "head" /\ cur = 0 /\ sum = 0 /\ lo = 0 /\ hi = 0
Head == /\ pc = "head"
        /\ cur' = c1 /\ sum' = Cnt(0, c1)
        /\ pc' = IF N >= U * V THEN "loop" ELSE "vec"
        /\ UNCHANGED <<lo, hi>>
Loop == /\ pc = "loop"
        /\ IF cur + U * V <= N
           THEN /\ lo' = cur /\ hi' = cur + U * V
                /\ sum' = sum + Cnt(cur, cur + U * V) /\ cur' = cur + U * V /\ pc' = "loop"
           ELSE pc' = "vec" /\ UNCHANGED <<cur, sum, lo, hi>>
Vec == /\ pc = "vec"
       /\ IF cur + V <= N
          THEN /\ lo' = cur /\ hi' = cur + V
               /\ sum' = sum + Cnt(cur, cur + V) /\ cur' = cur + V /\ pc' = "vec"
          ELSE pc' = "tail" /\ UNCHANGED <<cur, sum, lo, hi>>
Tail == /\ pc = "tail"
        /\ sum' = sum + Cnt(cur, N) /\ cur' = N /\ pc' = "done"
        /\ UNCHANGED <<lo, hi>>
Next == Head \/ Loop \/ Vec \/ Tail
Spec == Init /\ [][Next]_vars

TypeOK == pc \in {"head", "loop", "vec", "tail", "done"} /\ cur \in Int /\ sum \in Int /\ lo \in Int /\ hi \in Int
LoadsInBounds == 0 <= lo /\ lo <= hi /\ hi <= N
Counted == /\ 0 <= cur /\ cur <= N
           /\ (pc = "head" => cur = 0 /\ sum = 0)
           /\ (pc # "head" => sum = Cnt(0, cur))
           /\ (pc = "done" => cur = N)
Inv == TypeOK /\ LoadsInBounds /\ Counted
\* the answer
Correct == pc = "done" => sum = Cnt(0, N)

THEOREM InitInv == Init => Inv
  BY VAssump, NAssump DEF Init, Inv, TypeOK, LoadsInBounds, Counted

THEOREM NextInv == Inv /\ [Next]_vars => Inv'
<1> SUFFICES ASSUME Inv, [Next]_vars PROVE Inv'
  OBVIOUS
<1> USE VAssump, UAssump, NAssump, CAssump, CntType
<1>0. U * V \in Nat /\ U * V >= V
  BY VAssump, UAssump
<1>1. CASE Head
  BY <1>1, <1>0 DEF Head, Inv, TypeOK, LoadsInBounds, Counted
<1>2. CASE Loop
  <2>1. CASE cur + U * V <= N
    <3>1. Cnt(0, cur) + Cnt(cur, cur + U * V) = Cnt(0, cur + U * V)
      BY <2>1, <1>0, CntAdd DEF Inv, TypeOK, Counted
    <3> QED BY <1>2, <2>1, <3>1, <1>0 DEF Loop, Inv, TypeOK, LoadsInBounds, Counted
  <2>2. CASE ~(cur + U * V <= N)
    BY <1>2, <2>2 DEF Loop, Inv, TypeOK, LoadsInBounds, Counted
  <2> QED BY <2>1, <2>2
<1>3. CASE Vec
  <2>1. CASE cur + V <= N
    <3>1. Cnt(0, cur) + Cnt(cur, cur + V) = Cnt(0, cur + V)
      BY <2>1, CntAdd DEF Inv, TypeOK, Counted
    <3> QED BY <1>3, <2>1, <3>1 DEF Vec, Inv, TypeOK, LoadsInBounds, Counted
  <2>2. CASE ~(cur + V <= N)
    BY <1>3, <2>2 DEF Vec, Inv, TypeOK, LoadsInBounds, Counted
  <2> QED BY <2>1, <2>2
<1>4. CASE Tail
  <2>1. Cnt(0, cur) + Cnt(cur, N) = Cnt(0, N)
    BY CntAdd DEF Inv, TypeOK, Counted
  <2> QED BY <1>4, <2>1 DEF Tail, Inv, TypeOK, LoadsInBounds, Counted
<1>5. CASE UNCHANGED vars
  BY <1>5 DEF vars, Inv, TypeOK, LoadsInBounds, Counted
<1> QED BY <1>1, <1>2, <1>3, <1>4, <1>5 DEF Next

THEOREM InvCorrect == Inv => Correct
  BY DEF Inv, Counted, Correct

THEOREM Safety == Spec => [](Inv /\ Correct)
  BY InitInv, NextInv, InvCorrect, PTL DEF Spec
=============================================================================
