------------------------- MODULE FindRevIterUnbounded -------------------------
(***************************************************************************)
(* Unbounded supplement to Memmem.FR_Next (C08), proved with TLAPS: for an *)
(* arbitrary haystack length N, needle length NL and occurrence set Occ    *)
(* (for the empty needle every offset 0..N is an occurrence), FindRevIter  *)
(*   next: pos = None -> None;  r = greatest occurrence inside h[..pos];   *)
(*         pos := if pos = r then pos - 1 (None below 0) else r            *)
(* yields the mirror-image greedy sequence: only occurrences, strictly     *)
(* descending, pairwise non-overlapping, and every occurrence that is no   *)
(* longer eligible is either yielded or overlaps one that was yielded      *)
(* later in the haystack; after None all occurrences are accounted for.    *)
(* pos = -1 encodes None.                                                  *)
(***************************************************************************)
EXTENDS Integers, TLAPS

CONSTANTS N, NL, Occ
ASSUME NAssump == N \in Nat /\ NL \in Nat
ASSUME OAssump == Occ \subseteq 0..N /\ \A o \in Occ : o + NL <= N
ASSUME EmptyNeedle == NL = 0 => Occ = 0..N

VARIABLES pos, Y, finished

vars == <<pos, Y, finished>>

Eligible(o) == o \in Occ /\ o + NL <= pos

Init == pos = N /\ Y = {} /\ finished = FALSE

Some == /\ pos >= 0
        /\ \E r \in Occ : /\ Eligible(r) /\ \A q \in Occ : Eligible(q) => q <= r
                          /\ Y' = Y \cup {r}
                          /\ pos' = IF pos = r THEN pos - 1 ELSE r
        /\ finished' = finished
None == /\ (pos < 0 \/ \A q \in Occ : ~Eligible(q))
        /\ finished' = TRUE /\ UNCHANGED <<pos, Y>>
Next == Some \/ None
Spec == Init /\ [][Next]_vars

Covered(o) == o \in Y \/ \E y \in Y : o < y /\ y < o + NL
Inv == /\ pos \in Int /\ pos >= -1 /\ pos <= N /\ Y \subseteq Occ /\ finished \in BOOLEAN
       /\ \A y \in Y : y >= pos /\ (NL = 0 => y > pos)
       /\ \A y1, y2 \in Y : y1 < y2 => y1 + NL <= y2
       /\ \A o \in Occ : ~Eligible(o) => Covered(o)
       /\ (finished => \A o \in Occ : Covered(o))

THEOREM InitInv == Init => Inv
  BY NAssump, OAssump DEF Init, Inv, Covered, Eligible

THEOREM NextInv == Inv /\ [Next]_vars => Inv'
<1> SUFFICES ASSUME Inv, [Next]_vars PROVE Inv'
  OBVIOUS
<1> USE NAssump, OAssump, EmptyNeedle
<1>1. CASE Some
  <2> PICK r \in Occ : /\ Eligible(r) /\ \A q \in Occ : Eligible(q) => q <= r
                       /\ Y' = Y \cup {r}
                       /\ pos' = IF pos = r THEN pos - 1 ELSE r
    BY <1>1 DEF Some
  <2>0. r \in Nat /\ r + NL <= pos /\ finished' = finished /\ pos >= 0 /\ pos \in Int
    BY <1>1 DEF Some, Eligible, Inv
  <2>a. (pos = r) => NL = 0
    BY <2>0
  <2>b. (NL = 0) => pos = r
    \* for the empty needle every offset is an occurrence, so the greatest eligible one is pos itself
    <3> SUFFICES ASSUME NL = 0 PROVE pos = r
      OBVIOUS
    <3>1. pos \in Occ /\ Eligible(pos)
      BY <2>0 DEF Inv, Eligible
    <3> QED BY <3>1, <2>0
  <2>1. pos' \in Int /\ pos' >= -1 /\ pos' <= N /\ Y' \subseteq Occ /\ finished' \in BOOLEAN
    BY <2>0 DEF Inv
  <2>2. \A y \in Y' : y >= pos' /\ (NL = 0 => y > pos')
    <3>1. CASE NL = 0
      BY <3>1, <2>0, <2>b DEF Inv
    <3>2. CASE NL # 0
      BY <3>2, <2>0, <2>a DEF Inv
    <3> QED BY <3>1, <3>2
  <2>3. \A y1, y2 \in Y' : y1 < y2 => y1 + NL <= y2
    BY <2>0 DEF Inv
  <2>4. \A o \in Occ : ~Eligible(o)' => Covered(o)'
    <3> SUFFICES ASSUME NEW o \in Occ, ~(o + NL <= pos') PROVE Covered(o)'
      BY DEF Eligible
    <3>1. CASE ~Eligible(o)
      BY <3>1 DEF Inv, Covered
    <3>2. CASE Eligible(o)
      <4>1. o <= r
        BY <3>2
      <4>2. o = r \/ (o < r /\ r < o + NL)
        BY <4>1, <2>0, <2>a, <2>b
      <4> QED BY <4>2 DEF Covered
    <3> QED BY <3>1, <3>2
  <2>5. finished' => \A o \in Occ : Covered(o)'
    BY <2>0 DEF Inv, Covered
  <2> QED BY <2>1, <2>2, <2>3, <2>4, <2>5 DEF Inv
<1>2. CASE None
  <2>1. \A o \in Occ : ~Eligible(o)
    BY <1>2 DEF None, Inv, Eligible
  <2> QED BY <1>2, <2>1 DEF None, Inv, Covered, Eligible
<1>3. CASE UNCHANGED vars
  BY <1>3 DEF vars, Inv, Covered, Eligible
<1> QED BY <1>1, <1>2, <1>3 DEF Next

THEOREM Safety == Spec => []Inv
  BY InitInv, NextInv, PTL DEF Spec
=============================================================================
