------------------------------ MODULE Trace_Lib ------------------------------
(***************************************************************************)
(* I->S validator: recorded executions of the real library are checked     *)
(* against the P-layer.  One record = one input (needle bytes n, haystack  *)
(* bytes h) with the list of observations made on it by the recorder:      *)
(*   obs[k] = [e |-> entry point, t |-> kind, r |-> result, al |-> heap    *)
(*             allocations during the call, own |-> owning call?]          *)
(* kinds: byte search  "first" "last" "count"   (n = the 1..3 needle bytes)*)
(*        substring    "find" "rfind" "fwd" "rev" (r of fwd/rev = sequence)*)
(*        comparison   "eq" "prefix" "suffix"     (r = 0/1)                *)
(*        prefilter    "pre": r = candidate offset or -1, with the pair    *)
(*                     offsets i1, i2 of the finder; checked against the   *)
(*                     soundness predicate of C11 instead of a value       *)
(* Every observation is a completed public call; the abstract state of the *)
(* library between calls is empty (finders are immutable, searches are     *)
(* pure), so each record is validated independently and the spec's `Next`  *)
(* consumes exactly one record.  A failed comparison is reported and       *)
(* counted -- TLC getting stuck is never the signal; the postcondition     *)
(* only checks that every record was consumed.                             *)
(* Lib action classification for C17: no call allocates except the owning  *)
(* conversions (own = TRUE).                                               *)
(***************************************************************************)
EXTENDS Bytes, TLC, Json, IOUtils

Rec == ndJsonDeserialize(IOEnv.TRACE)

VARIABLES l, nviol, nobs

NeedleSet(n) == {n[i] : i \in 1..Len(n)}

Expected(t, n, h) ==
  CASE t = "first" -> FirstMatch(h, NeedleSet(n))
    [] t = "last" -> LastMatch(h, NeedleSet(n))
    [] t = "count" -> CountMatch(h, NeedleSet(n))
    [] t = "find" -> FindSub(h, n)
    [] t = "rfind" -> RFindSub(h, n)
    [] t = "fwd" -> GreedyFwd(h, n)
    [] t = "rev" -> GreedyRev(h, n)
    [] t = "eq" -> IF IsEqualSeq(h, n) THEN 1 ELSE 0
    [] t = "prefix" -> IF IsPrefixSeq(h, n) THEN 1 ELSE 0
    [] t = "suffix" -> IF IsSuffixSeq(h, n) THEN 1 ELSE 0

\* the kinds present in a record, each oracle evaluated once
Kinds(r) == {r.obs[k].t : k \in 1..Len(r.obs)}
\* C11: a candidate never lies past the first occurrence, None only if the needle is absent, and the two selected
\* needle bytes really are present at their offsets
PreSound(o, n, h, f) ==
  /\ (f >= 0 => o.r >= 0 /\ o.r <= f)
  /\ (o.r >= 0 => /\ o.r + o.i1 < Len(h) /\ o.r + o.i2 < Len(h)
                  /\ At(h, o.r + o.i1) = At(n, o.i1) /\ At(h, o.r + o.i2) = At(n, o.i2))
BadObs(r) ==
  LET vk == Kinds(r) \ {"pre"}
      exp == [t \in vk |-> Expected(t, r.n, r.h)]
      f == IF "pre" \in Kinds(r) THEN FindSub(r.h, r.n) ELSE -1 IN
  {k \in 1..Len(r.obs) : IF r.obs[k].t = "pre" THEN ~PreSound(r.obs[k], r.n, r.h, f) ELSE r.obs[k].r # exp[r.obs[k].t]}
BadAlloc(r) == {k \in 1..Len(r.obs) : r.obs[k].al # 0 /\ ~r.obs[k].own}

Init == l = 1 /\ nviol = 0 /\ nobs = 0
Next == /\ l <= Len(Rec)
        /\ LET r == Rec[l]
               bad == BadObs(r)
               bal == BadAlloc(r) IN
           /\ nviol' = nviol + Cardinality(bad) + Cardinality(bal)
           /\ nobs' = nobs + Len(r.obs)
           /\ IF bad = {} THEN TRUE ELSE PrintT(<<"VIOLATION", l, "result", r.obs[SetMin(bad)].e, Cardinality(bad)>>)
           /\ IF bal = {} THEN TRUE ELSE PrintT(<<"VIOLATION", l, "alloc", r.obs[SetMin(bal)].e, Cardinality(bal)>>)
        /\ l' = l + 1
AllConsumed == TLCGet("stats").diameter - 1 = Len(Rec)
Summary == (l = Len(Rec) + 1) => PrintT(<<"SUMMARY", Len(Rec), nviol, nobs>>)
=============================================================================
