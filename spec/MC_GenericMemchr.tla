-------------------------- MODULE MC_GenericMemchr --------------------------
(* Exhaustive instance of GenericMemchr: every length x every start          *)
(* alignment x every placement of up to two matches (sparse), every          *)
(* placement of up to two non-matches in an all-match haystack (holes), and  *)
(* every content for short lengths (dense); find / rfind / count; unroll 4   *)
(* (one needle) and 2 (two or three needles).  One REPLAY line per           *)
(* terminated behaviour binds the model to the code (S->I).                  *)
EXTENDS GenericMemchr, TLC, Json

CONSTANTS MinLen, MaxLen, DenseMax, Ops, NNs, Bases, Families, Emit

VARIABLES in, st, meta

vars == <<in, st, meta>>

Mk(op, nn, b, h) == [op |-> op, nn |-> nn, base |-> b, hay |-> h]

Init ==
  /\ \E op \in Ops : \E nn \in NNs : \E b \in Bases :
       /\ (op = "count" => nn = 1)
       /\ \/ /\ "sparse" \in Families
             /\ \E n \in MinLen..MaxLen : \E p1 \in 0..n : \E p2 \in p1..n :
                  /\ (p1 = 0 => p2 = 0)
                  /\ in = Mk(op, nn, b, [i \in 1..n |-> IF i = p1 \/ i = p2 THEN 1 ELSE 0])
                  /\ meta = [fam |-> "sparse", fill |-> 0, pts |-> {p - 1 : p \in {p1, p2} \ {0}}]
          \/ /\ "single" \in Families
             /\ \E n \in MinLen..MaxLen : \E p1 \in 0..n :
                  /\ in = Mk(op, nn, b, [i \in 1..n |-> IF i = p1 THEN 1 ELSE 0])
                  /\ meta = [fam |-> "single", fill |-> 0, pts |-> {p - 1 : p \in {p1} \ {0}}]
          \/ /\ "holes" \in Families
             /\ \E n \in MinLen..MaxLen : \E p1 \in 0..n : \E p2 \in p1..n :
                  /\ (p1 = 0 => p2 = 0)
                  /\ in = Mk(op, nn, b, [i \in 1..n |-> IF i = p1 \/ i = p2 THEN 0 ELSE 1])
                  /\ meta = [fam |-> "holes", fill |-> 1, pts |-> {p - 1 : p \in {p1, p2} \ {0}}]
          \/ /\ "dense" \in Families
             /\ \E n \in MinLen..DenseMax : \E h \in [1..n -> {0, 1}] :
                  /\ in = Mk(op, nn, b, h)
                  /\ meta = [fam |-> "dense", fill |-> 0, pts |-> {p - 1 : p \in {q \in 1..n : h[q] = 1}}]
  /\ st = Init0(in)

Next == st.pc # "done" /\ st' = Step(in, st) /\ UNCHANGED <<in, meta>>

Spec == Init /\ [][Next]_vars

\* ---- invariants (checked in every intermediate state) ----
ResultIsOracle == st.pc = "done" => st.res = Oracle(in)
Safe == LoadsOK(in, st)
NoBad == ~st.bad
Coverage == Covered(in, st)
Linear == StepsLinear(in, st)
RunAgrees == st.pc = "head" => Run(in, st).res = Oracle(in)   \* Run (used by trace specs) = iterated Step

\* ---- S->I: one line per terminated behaviour ----
Vector ==
  [m |-> "generic", vb |-> VB, op |-> in.op, nn |-> in.nn, base |-> in.base,
   len |-> Len(in.hay), fam |-> meta.fam, fill |-> meta.fill, pts |-> meta.pts,
   res |-> st.res, loads |-> st.loads, arms |-> st.arms, steps |-> st.steps]
EmitReplay == (Emit /\ st.pc = "done") => PrintT(<<"REPLAY", ToJson(Vector)>>)
=============================================================================
