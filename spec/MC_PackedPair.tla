---------------------------- MODULE MC_PackedPair ----------------------------
(* Exhaustive instance: all needles MinN..MaxN over Alpha, every ordered pair  *)
(* of distinct indices, every haystack length 0 .. minLen+Extra with all       *)
(* contents; find, find_prefilter and the portable prefilter.                  *)
EXTENDS PackedPair, TLC, Json
CONSTANTS VB, Alpha, MinN, MaxN, Extra, Emit
VARIABLES in, st, pst
Init == /\ \E n \in Seqs(Alpha, MinN, MaxN) : \E i1 \in 0..Len(n) - 1 : \E i2 \in 0..Len(n) - 1 :
            /\ i1 # i2
            /\ \E hl \in 0..(PP_MinLen(VB, n, i1, i2) + Extra) : \E h \in [1..hl -> Alpha] :
                 in = [needle |-> n, hay |-> h, i1 |-> i1, i2 |-> i2, vb |-> VB]
        /\ st = PP_Init0 /\ pst = PP_Init0
Next == /\ (st.pc # "done" \/ pst.pc # "done")
        /\ st' = IF st.pc # "done" THEN PP_Step(in, st) ELSE st
        /\ pst' = IF pst.pc # "done" THEN PP_PStep(in, pst) ELSE pst
        /\ in' = in
Done == st.pc = "done" /\ pst.pc = "done"
MinLen == PP_MinLenIn(in)
FindOK == st.pc = "done" => /\ st.panic = (Len(in.hay) < MinLen)
                            /\ (~st.panic => st.res = FindSub(in.hay, in.needle))
PrefilterOK == (pst.pc = "done" /\ ~pst.panic) => /\ PP_PrefilterSound(in, pst.res)
                                                  /\ pst.res = PP_PrefilterF(in)
PortableOK == Done => PP_PrefilterSound(in, PP_PortablePrefilter(in).res)
Safe == PP_LoadsOK(in, st) /\ PP_LoadsOK(in, pst)
NoBad == ~st.bad /\ ~pst.bad
\* cost: one chunk per VB bytes, confirmations at most one per haystack position (+ overlap)
Linear == /\ st.chunks * VB <= Len(in.hay) + 2 * VB /\ pst.chunks * VB <= Len(in.hay) + 2 * VB
          /\ st.confirms <= Len(in.hay) + VB
Vector == [m |-> "pp", vb |-> VB, needle |-> in.needle, hay |-> in.hay, i1 |-> in.i1, i2 |-> in.i2, minlen |-> MinLen,
           panic |-> st.panic, find |-> IF st.panic THEN -2 ELSE FindSub(in.hay, in.needle), pre |-> pst.res,
           portable |-> PP_PortablePrefilter(in).res,
           loads |-> st.loads, ploads |-> pst.loads, arms |-> st.arms \cup {"p_" \o a : a \in pst.arms}]
EmitReplay == (Emit /\ Done) => PrintT(<<"REPLAY", ToJson(Vector)>>)
=============================================================================
