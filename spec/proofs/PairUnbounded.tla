------------------------------ MODULE PairUnbounded ------------------------------
(***************************************************************************)
(* Unbounded supplement to Pair (C19), proved with TLAPS: for a needle of  *)
(* ARBITRARY length L >= 2, an arbitrary scan cap CAP >= 2 (255 in the     *)
(* code) and an ARBITRARY ranker (its decisions are abstracted to the      *)
(* three branches of the loop body, taken nondeterministically), the       *)
(* selection loop of Pair::with_ranker                                     *)
(*   (i1, i2) := (0, 1), swapped if rank(n[1]) < rank(n[0]);               *)
(*   for i in 2 .. min(L, CAP): rarer than rare1 -> (i2, i1) := (i1, i)    *)
(*                              else rarer than rare2 (and a different     *)
(*                              byte) -> i2 := i; else nothing             *)
(* ends with two DIFFERENT offsets, both inside the needle and at most     *)
(* CAP - 1 (so `assert_ne!(index1, index2)` never fires and u8::try_from   *)
(* never fails for CAP <= 256).                                            *)
(***************************************************************************)
EXTENDS Integers, TLAPS

CONSTANTS L, CAP
ASSUME LAssump == L \in Nat /\ L >= 2
ASSUME CAssump == CAP \in Nat /\ CAP >= 2

VARIABLES pc, i, i1, i2
vars == <<pc, i, i1, i2>>
Lim == IF L < CAP THEN L ELSE CAP

Init == pc = "seed" /\ i = 2 /\ i1 = 0 /\ i2 = 1
Seed == /\ pc = "seed"
        /\ \/ (i1' = 0 /\ i2' = 1)
           \/ (i1' = 1 /\ i2' = 0)
        /\ pc' = "scan" /\ i' = 2
Scan == /\ pc = "scan"
        /\ IF i < Lim
           THEN /\ \/ (i1' = i /\ i2' = i1)          \* strictly rarer than rare1
                   \/ (i1' = i1 /\ i2' = i)          \* a different byte, rarer than rare2
                   \/ (i1' = i1 /\ i2' = i2)         \* neither
                /\ i' = i + 1 /\ pc' = "scan"
           ELSE pc' = "done" /\ UNCHANGED <<i, i1, i2>>
Next == Seed \/ Scan
Spec == Init /\ [][Next]_vars

Inv == /\ pc \in {"seed", "scan", "done"}
       /\ i \in Nat /\ i1 \in Nat /\ i2 \in Nat
       /\ 2 <= i /\ i <= Lim \/ i = 2
       /\ i1 # i2 /\ i1 < i /\ i2 < i
       /\ i1 < L /\ i2 < L /\ i1 <= CAP - 1 /\ i2 <= CAP - 1

LEMMA LimFacts == Lim \in Nat /\ Lim >= 2 /\ Lim <= L /\ Lim <= CAP
  BY LAssump, CAssump DEF Lim

THEOREM InitInv == Init => Inv
  BY LAssump, CAssump, LimFacts DEF Init, Inv

THEOREM NextInv == Inv /\ [Next]_vars => Inv'
<1> SUFFICES ASSUME Inv, [Next]_vars PROVE Inv'
  OBVIOUS
<1> USE LAssump, CAssump, LimFacts
<1>1. CASE Seed
  BY <1>1 DEF Seed, Inv
<1>2. CASE Scan
  BY <1>2 DEF Scan, Inv
<1>3. CASE UNCHANGED vars
  BY <1>3 DEF vars, Inv
<1> QED BY <1>1, <1>2, <1>3 DEF Next

THEOREM Safety == Spec => []Inv
  BY InitInv, NextInv, PTL DEF Spec
=============================================================================
