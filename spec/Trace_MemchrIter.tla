-------------------------- MODULE Trace_MemchrIter --------------------------
(***************************************************************************)
(* I->S validator for C06/C07: a record is one recorded call history of a  *)
(* real byte-search iterator:                                              *)
(*   [n |-> needle bytes, h |-> haystack bytes, e |-> iterator name,       *)
(*    ops |-> << [op |-> "next" | "next_back" | "count", ret, lo, up] >>]  *)
(* (`lo`/`up` = size_hint after the call, up = -1 for None; "count" is     *)
(* count() of a clone and leaves the iterator unchanged).  The history is  *)
(* replayed through the abstract machine of IterCore; every returned value *)
(* must equal the machine's and every size_hint must bracket the number of *)
(* matches still to come.                                                  *)
(***************************************************************************)
EXTENDS IterCore, TLC, Json, IOUtils

Rec == ndJsonDeserialize(IOEnv.TRACE)
VARIABLES l, nviol, nops

NeedleSet(n) == {n[i] : i \in 1..Len(n)}

\* index of the first op whose observation disagrees with the machine (0 = none)
RECURSIVE FirstBad(_, _, _, _, _)
FirstBad(h, S, ops, k, w) ==
  IF k > Len(ops) THEN 0
  ELSE LET o == ops[k]
           x == CASE o.op = "next" -> IT_Next(h, S, w)
                  [] o.op = "next_back" -> IT_NextBack(h, S, w)
                  [] o.op = "count" -> [ret |-> IT_Remaining(h, S, w), w |-> w]
           rem == IT_Remaining(h, S, x.w)
           ok == /\ o.ret = x.ret
                 /\ (o.op = "count" \/ (o.lo <= rem /\ (o.up < 0 \/ o.up >= rem)))
       IN IF ok THEN FirstBad(h, S, ops, k + 1, x.w) ELSE k

Init == l = 1 /\ nviol = 0 /\ nops = 0
Next == /\ l <= Len(Rec)
        /\ LET r == Rec[l]
               b == FirstBad(r.h, NeedleSet(r.n), r.ops, 1, IT_New(r.h)) IN
           /\ nviol' = IF b = 0 THEN nviol ELSE nviol + 1
           /\ nops' = nops + Len(r.ops)
           /\ IF b = 0 THEN TRUE ELSE PrintT(<<"VIOLATION", l, r.ops[b].op, r.e, b>>)
        /\ l' = l + 1
AllConsumed == TLCGet("stats").diameter - 1 = Len(Rec)
Summary == (l = Len(Rec) + 1) => PrintT(<<"SUMMARY", Len(Rec), nviol, nops>>)
=============================================================================
