----------------------------- MODULE IterWindow -----------------------------
(***************************************************************************)
(* Unbounded supplement to MemchrIter (C06), proved with TLAPS: for an     *)
(* ARBITRARY haystack length N and an ARBITRARY set M of match positions,  *)
(* the window machine of generic::Iter (next: lo := found + 1, next_back:  *)
(* hi := found, where found is the least / greatest match inside the       *)
(* window) maintains                                                       *)
(*    Inv:  Y = {p \in M : p < lo \/ p >= hi}  /\  lo, hi \in 0..N         *)
(* i.e. what has been yielded is exactly what lies outside the window.     *)
(* Consequences proved below: a yielded position is always a match that    *)
(* was not yielded before (NoDuplicate / OnlyMatches), and when a call     *)
(* returns None everything has been yielded (ExactlyAllWhenDrained).       *)
(* The bounded model MemchrIter checks the same machine exhaustively with  *)
(* call histories; this module removes the bound on N and M.               *)
(***************************************************************************)
EXTENDS Integers, TLAPS

CONSTANTS N, M
ASSUME NAssump == N \in Nat
ASSUME MAssump == M \subseteq 0..(N - 1)

VARIABLES lo, hi, Y, last

vars == <<lo, hi, Y, last>>

InWin(p) == p \in M /\ lo <= p /\ p < hi

Init == lo = 0 /\ hi = N /\ Y = {} /\ last = -1

\* next(): the least match in the window, if any
NextSome == \E r \in M :
   /\ InWin(r) /\ \A q \in M : InWin(q) => r <= q
   /\ lo' = r + 1 /\ hi' = hi /\ Y' = Y \cup {r} /\ last' = r
\* next_back(): the greatest match in the window, if any
BackSome == \E r \in M :
   /\ InWin(r) /\ \A q \in M : InWin(q) => q <= r
   /\ hi' = r /\ lo' = lo /\ Y' = Y \cup {r} /\ last' = r
\* either call returns None when the window holds no match
NoneCall == (\A q \in M : ~InWin(q)) /\ last' = -1 /\ UNCHANGED <<lo, hi, Y>>

Next == NextSome \/ BackSome \/ NoneCall
Spec == Init /\ [][Next]_vars

TypeOK == lo \in 0..N /\ hi \in 0..N /\ Y \subseteq M /\ last \in M \cup {-1}
Inv == TypeOK /\ Y = {p \in M : p < lo \/ p >= hi}

THEOREM InitInv == Init => Inv
  BY NAssump, MAssump DEF Init, Inv, TypeOK

THEOREM NextInv == Inv /\ [Next]_vars => Inv'
<1> SUFFICES ASSUME Inv, [Next]_vars PROVE Inv'
  OBVIOUS
<1>1. CASE NextSome
  <2> PICK r \in M : /\ InWin(r) /\ \A q \in M : InWin(q) => r <= q
                     /\ lo' = r + 1 /\ hi' = hi /\ Y' = Y \cup {r} /\ last' = r
    BY <1>1 DEF NextSome
  <2> QED BY NAssump, MAssump DEF Inv, TypeOK, InWin
<1>2. CASE BackSome
  <2> PICK r \in M : /\ InWin(r) /\ \A q \in M : InWin(q) => q <= r
                     /\ hi' = r /\ lo' = lo /\ Y' = Y \cup {r} /\ last' = r
    BY <1>2 DEF BackSome
  <2> QED BY NAssump, MAssump DEF Inv, TypeOK, InWin
<1>3. CASE NoneCall
  BY <1>3 DEF NoneCall, Inv, TypeOK
<1>4. CASE UNCHANGED vars
  BY <1>4 DEF vars, Inv, TypeOK
<1> QED BY <1>1, <1>2, <1>3, <1>4 DEF Next

THEOREM Safety == Spec => []Inv
  BY InitInv, NextInv, PTL DEF Spec

\* a position yielded by a call was a match not yielded before (never twice, never a non-match)
THEOREM FreshYield == Inv /\ (NextSome \/ BackSome) => (last' \in M /\ last' \notin Y)
<1> SUFFICES ASSUME Inv, NextSome \/ BackSome PROVE last' \in M /\ last' \notin Y
  OBVIOUS
<1>1. CASE NextSome
  <2> PICK r \in M : /\ InWin(r) /\ lo' = r + 1 /\ hi' = hi /\ Y' = Y \cup {r} /\ last' = r
    BY <1>1 DEF NextSome
  <2>1. r \in Int /\ lo \in Int /\ hi \in Int
    BY NAssump, MAssump DEF Inv, TypeOK
  <2>2. ~(r < lo \/ r >= hi)
    BY <2>1 DEF InWin
  <2>3. r \notin {p \in M : p < lo \/ p >= hi}
    BY <2>2
  <2> QED BY <2>3 DEF Inv
<1>2. CASE BackSome
  <2> PICK r \in M : /\ InWin(r) /\ hi' = r /\ lo' = lo /\ Y' = Y \cup {r} /\ last' = r
    BY <1>2 DEF BackSome
  <2>1. r \in Int /\ lo \in Int /\ hi \in Int
    BY NAssump, MAssump DEF Inv, TypeOK
  <2>2. ~(r < lo \/ r >= hi)
    BY <2>1 DEF InWin
  <2>3. r \notin {p \in M : p < lo \/ p >= hi}
    BY <2>2
  <2> QED BY <2>3 DEF Inv
<1> QED BY <1>1, <1>2

\* None is returned only when every match has been yielded
THEOREM DrainedMeansAll == Inv /\ (\A q \in M : ~InWin(q)) => Y = M
<1> SUFFICES ASSUME Inv, \A q \in M : ~InWin(q) PROVE Y = M
  OBVIOUS
<1>1. lo \in Int /\ hi \in Int /\ \A q \in M : q \in Int
  BY NAssump, MAssump DEF Inv, TypeOK
<1>2. \A q \in M : q < lo \/ q >= hi
  BY <1>1 DEF InWin
<1>3. {p \in M : p < lo \/ p >= hi} = M
  BY <1>2
<1> QED BY <1>3 DEF Inv
=============================================================================
