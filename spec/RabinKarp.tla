----------------------------- MODULE RabinKarp -----------------------------
(***************************************************************************)
(* L-layer model of src/arch/all/rabinkarp.rs.  Hash(u32): add(b) is       *)
(* h := (h << 1) + b; hash_2pow = 1 << (n-1) (wrapping, so it is 0 once    *)
(* n - 1 >= HASHBITS); del(b) is h := h - b * hash_2pow; all modulo        *)
(* 2^HASHBITS.  find: window hash compared with the needle hash, confirmed *)
(* by is_equal_raw; reverse search hashes from the last byte backwards.    *)
(* HASHBITS is 32 in the code; small values make collisions and the        *)
(* zero-weight leading bytes reachable in an exhaustive model.             *)
(***************************************************************************)
EXTENDS IsEqual

CONSTANT HASHBITS

RK_Mod == 2 ^ HASHBITS
RK_Add(h, b) == (2 * h + b) % RK_Mod
RK_Del(h, pow, b) == (h + RK_Mod * (b + 1) * RK_Mod - b * pow) % RK_Mod    \* wrapping_sub, kept non-negative
RECURSIVE RK_HashFwd(_, _, _)
RK_HashFwd(s, i, acc) == IF i > Len(s) THEN acc ELSE RK_HashFwd(s, i + 1, RK_Add(acc, s[i]))
RECURSIVE RK_HashRev(_, _, _)
RK_HashRev(s, i, acc) == IF i < 1 THEN acc ELSE RK_HashRev(s, i - 1, RK_Add(acc, s[i]))
RECURSIVE RK_Pow(_)                                  \* hash_2pow for a needle of length n
RK_Pow(n) == IF n <= 1 THEN 1 ELSE (2 * RK_Pow(n - 1)) % RK_Mod

\* is_equal_raw(cur, needle, nlen) with its cost (number of 4/2/1-byte comparisons)
RK_Confirm(h, n, cur) == IE_Run(Slice(h, cur, cur + Len(n)), n, IE_Init0)

\* Finder::find -- st = [cur, hash, res, hashes, cmps, done]
RK_FwdStep(h, n, nh, pow, st) ==
  LET nl == Len(n)  end == Len(h) - nl
      c == IF st.hash = nh THEN RK_Confirm(h, n, st.cur) ELSE [res |-> FALSE, steps |-> 0]
  IN IF st.hash = nh /\ c.res THEN [st EXCEPT !.done = TRUE, !.res = st.cur, !.cmps = @ + c.steps]
     ELSE IF st.cur >= end THEN [st EXCEPT !.done = TRUE, !.res = -1, !.cmps = @ + c.steps]
     ELSE [st EXCEPT !.cur = @ + 1, !.cmps = @ + c.steps, !.hashes = @ + 1,
                     !.hash = RK_Add(RK_Del(st.hash, pow, At(h, st.cur)), At(h, st.cur + nl))]
RECURSIVE RK_FwdRun(_, _, _, _, _)
RK_FwdRun(h, n, nh, pow, st) == IF st.done THEN st ELSE RK_FwdRun(h, n, nh, pow, RK_FwdStep(h, n, nh, pow, st))
RK_Find(h, n) ==
  IF Len(n) > Len(h) THEN [res |-> -1, hashes |-> 0, cmps |-> 0]
  ELSE LET r == RK_FwdRun(h, n, RK_HashFwd(n, 1, 0), RK_Pow(Len(n)),
                          [cur |-> 0, hash |-> RK_HashFwd(Take(h, Len(n)), 1, 0), res |-> -2, hashes |-> Len(n), cmps |-> 0, done |-> FALSE])
       IN [res |-> r.res, hashes |-> r.hashes, cmps |-> r.cmps]

\* FinderRev::rfind
RK_RevStep(h, n, nh, pow, st) ==
  LET nl == Len(n)
      c == IF st.hash = nh THEN RK_Confirm(h, n, st.cur) ELSE [res |-> FALSE, steps |-> 0]
  IN IF st.hash = nh /\ c.res THEN [st EXCEPT !.done = TRUE, !.res = st.cur, !.cmps = @ + c.steps]
     ELSE IF st.cur <= 0 THEN [st EXCEPT !.done = TRUE, !.res = -1, !.cmps = @ + c.steps]
     ELSE [st EXCEPT !.cur = @ - 1, !.cmps = @ + c.steps, !.hashes = @ + 1,
                     !.hash = RK_Add(RK_Del(st.hash, pow, At(h, st.cur - 1 + nl)), At(h, st.cur - 1))]
RECURSIVE RK_RevRun(_, _, _, _, _)
RK_RevRun(h, n, nh, pow, st) == IF st.done THEN st ELSE RK_RevRun(h, n, nh, pow, RK_RevStep(h, n, nh, pow, st))
RK_RFind(h, n) ==
  IF Len(n) > Len(h) THEN [res |-> -1, hashes |-> 0, cmps |-> 0]
  ELSE LET c0 == Len(h) - Len(n)
           r == RK_RevRun(h, n, RK_HashRev(n, Len(n), 0), RK_Pow(Len(n)),
                          [cur |-> c0, hash |-> RK_HashRev(Slice(h, c0, Len(h)), Len(n), 0), res |-> -2, hashes |-> Len(n), cmps |-> 0, done |-> FALSE])
       IN [res |-> r.res, hashes |-> r.hashes, cmps |-> r.cmps]

RK_IsFast(h, RKFAST) == Len(h) < RKFAST
=============================================================================
