//! C05: every safe entry point is executed with haystack and needle placed so
//! that they END exactly at a PROT_NONE page and so that they START exactly
//! after one. A read outside the slices faults (the run is process-isolated
//! and the faulting vector is reported), and all hooked loads (vector loads,
//! is_equal_raw comparisons) are checked against the two slices.
//! Inputs are the TLC vectors of the other models (byte-search, substring,
//! packed-pair), 1:1 and lifted/stretched.
use crate::backends::all_searchers;
use crate::r_generic::{fill_hay, parse, value_row, Op, STRETCH};
use crate::r_mm::lift_for;
use crate::util::*;
use memchr::arch::all::packedpair::Pair;
use memchr::memmem;
use memchr::verif as hook;
use serde_json::{json, Value};

pub struct G2 {
    pub hay: Guarded,
    pub ndl: Guarded,
}

fn flag_events(rep: &Report, ev: &[hook::Event], what: &str, ctx: &dyn Fn() -> Value) {
    for e in ev {
        if e.kind == b'r' {
            continue;
        }
        if !e.inb {
            rep.finding(Class::Oob, &format!("{what}: hooked load of {} bytes (kind {}) outside the haystack and needle slices", e.size, e.kind as char), ctx());
            return;
        }
        if (e.kind == b'a' || e.kind == b'w') && e.addr % e.size != 0 {
            rep.finding(Class::Misaligned, &format!("{what}: aligned load of {} bytes at a misaligned address", e.size), ctx());
            return;
        }
    }
}

fn bytes_case(v: &Value, idx: usize, g: &mut G2, rep: &Report, cnt: &mut Counts, seed: u64) {
    let gv = parse(v);
    let j = idx.wrapping_add(seed as usize);
    let nns: &[usize] = if gv.nn == 1 { &[1] } else { &[2, 3] };
    for &nn in nns {
        let (needles, filler) = value_row(nn, j);
        for st in 0..2 {
            let (off, s, extra) = if st == 0 { (0, 1, 0) } else { STRETCH[(st + j) % STRETCH.len()] };
            let nlen = if gv.len == 0 { off + extra } else { off + (gv.len - 1) * s + 1 + extra };
            if nlen > g.hay.cap() {
                continue;
            }
            let ms: Vec<usize> = gv.matches.iter().map(|m| off + m * s).collect();
            let mut hv = vec![filler; nlen];
            fill_hay(&mut hv, &ms, &needles, filler, j);
            for place in 0..2 {
                g.hay.fill(needles[0]);
                let h: &[u8] = if place == 0 { g.hay.at_end(&hv) } else { g.hay.at_start(&hv) };
                let ctx = || json!({"vector": v, "run": {"needles": needles, "placement": if place == 0 { "page-end" } else { "page-start" }, "len": nlen}});
                for sr in all_searchers(&needles, false) {
                    hook::start(&[(h.as_ptr() as usize, h.len())]);
                    let r = guard(|| {
                        let s0 = h.as_ptr();
                        let e0 = unsafe { s0.add(h.len()) };
                        match gv.op {
                            Op::Find => {
                                let _ = sr.find(h);
                                let _ = unsafe { sr.find_raw(s0, e0) };
                                let mut it = sr.iter(h);
                                while it.next().is_some() {}
                            }
                            Op::Rfind => {
                                let _ = sr.rfind(h);
                                let _ = unsafe { sr.rfind_raw(s0, e0) };
                                let mut it = sr.iter(h);
                                while it.next_back().is_some() {}
                            }
                            Op::Count => {
                                let _ = sr.count(h);
                                let _ = unsafe { sr.count_raw(s0, e0) };
                                let _ = sr.iter(h).count_rest();
                            }
                        }
                    });
                    let (ev, _) = hook::stop();
                    cnt.add("guard_exec", 3);
                    if let Err(m) = r {
                        rep.finding(Class::Panic, &format!("{} panicked: {m}", sr.backend()), ctx());
                    }
                    flag_events(rep, &ev, sr.backend(), &ctx);
                }
            }
        }
    }
}

fn sub_case(v: &Value, idx: usize, g: &mut G2, rep: &Report, cnt: &mut Counts, seed: u64, lifts: usize) {
    let ns = get_bytes(v, "n");
    let hs = get_bytes(v, "h");
    let j = idx.wrapping_add(seed as usize);
    let nl = if ns.is_empty() { 1 } else { lifts };
    for k in 0..nl {
        let lift = lift_for(j, k);
        let nv = lift.seq(&ns);
        let hv = lift.hay(&hs);
        if hv.len() > g.hay.cap() || nv.len() + 1 > g.ndl.cap() {
            continue;
        }
        for place in 0..2 {
            g.hay.fill(lift.pad);
            g.ndl.fill(lift.pad);
            let (h, n): (&[u8], &[u8]) = if place == 0 { (g.hay.at_end(&hv), g.ndl.at_end(&nv)) } else { (g.hay.at_start(&hv), g.ndl.at_start(&nv)) };
            let ctx = || json!({"vector": v, "run": {"lift": lift.json(), "placement": if place == 0 { "page-end" } else { "page-start" }}});
            hook::start(&[(h.as_ptr() as usize, h.len()), (n.as_ptr() as usize, n.len())]);
            let r = guard(|| {
                use memchr::arch::all::{is_prefix, is_suffix, rabinkarp, twoway};
                let _ = memmem::find(h, n);
                let _ = memmem::rfind(h, n);
                let f = memmem::Finder::new(n);
                let _ = f.find(h);
                let _ = memmem::FinderRev::new(n).rfind(h);
                let _ = memmem::FinderBuilder::new().prefilter(memmem::Prefilter::None).build_forward(n).find(h);
                let _ = f.find_iter(h).count();
                let _ = memmem::rfind_iter(h, n).count();
                let _ = twoway::Finder::new(n).find(h, n);
                let _ = twoway::FinderRev::new(n).rfind(h, n);
                let _ = rabinkarp::Finder::new(n).find(h, n);
                let _ = rabinkarp::FinderRev::new(n).rfind(h, n);
                let _ = is_prefix(h, n);
                let _ = is_suffix(h, n);
                #[cfg(feature = "alloc")]
                {
                    if let Some(so) = memchr::arch::all::shiftor::Finder::new(n) {
                        let _ = so.find(h);
                    }
                }
            });
            let (ev, _) = hook::stop();
            cnt.add("guard_exec", 14);
            if let Err(m) = r {
                rep.finding(Class::Panic, &format!("substring API panicked: {m}"), ctx());
            }
            flag_events(rep, &ev, "substring API", &ctx);
            // packed-pair finders with extreme pair offsets, and out-of-contract safe calls whose needle
            // differs from the construction needle (panics and wrong answers are accepted there, reads outside are not)
            if n.len() >= 2 {
                let last = (n.len() - 1).min(254) as u8;
                for (a, b) in [(0u8, 1u8), (last, 0), (last, last.saturating_sub(1)), (1, last)] {
                    if a == b {
                        continue;
                    }
                    if let Some(pair) = Pair::with_indices(n, a, b) {
                        hook::start(&[(h.as_ptr() as usize, h.len()), (n.as_ptr() as usize, n.len())]);
                        let r = guard(|| {
                            if let Some(f) = memchr::arch::all::packedpair::Finder::with_pair(n, pair) {
                                let _ = f.find_prefilter(h);
                            }
                            #[cfg(verif_x86)]
                            {
                                use memchr::arch::x86_64::{avx2, sse2};
                                if let Some(f) = sse2::packedpair::Finder::with_pair(n, pair) {
                                    if h.len() >= f.min_haystack_len() {
                                        let _ = f.find(h, n);
                                        let _ = f.find_prefilter(h);
                                        let _ = f.find(h, &n[..n.len() - 1]);
                                    }
                                }
                                if let Some(f) = avx2::packedpair::Finder::with_pair(n, pair) {
                                    if h.len() >= f.min_haystack_len() {
                                        let _ = f.find(h, n);
                                        let _ = f.find_prefilter(h);
                                        let _ = f.find(h, &n[1..]);
                                    }
                                }
                            }
                            #[cfg(target_arch = "aarch64")]
                            {
                                use memchr::arch::aarch64::neon;
                                if let Some(f) = neon::packedpair::Finder::with_pair(n, pair) {
                                    if h.len() >= f.min_haystack_len() {
                                        let _ = f.find(h, n);
                                        let _ = f.find_prefilter(h);
                                    }
                                }
                            }
                        });
                        let (ev, _) = hook::stop();
                        cnt.add("guard_exec", 7);
                        let _ = r; // panics are accepted for out-of-contract calls
                        flag_events(rep, &ev, "packed-pair finders", &ctx);
                    }
                }
                // out of contract: search-time needle shorter than the construction needle
                hook::start(&[(h.as_ptr() as usize, h.len()), (n.as_ptr() as usize, n.len())]);
                let _ = guard(|| {
                    use memchr::arch::all::{rabinkarp, twoway};
                    let short = &n[..n.len() - 1];
                    let tail = &n[1..];
                    let _ = twoway::Finder::new(n).find(h, short);
                    let _ = twoway::FinderRev::new(n).rfind(h, tail);
                    let _ = rabinkarp::Finder::new(n).find(h, short);
                    let _ = rabinkarp::FinderRev::new(n).rfind(h, tail);
                    let _ = twoway::Finder::new(short).find(h, n);
                    let _ = rabinkarp::Finder::new(tail).find(h, n);
                });
                let (ev, _) = hook::stop();
                cnt.add("guard_exec", 6);
                flag_events(rep, &ev, "out-of-contract safe calls", &ctx);
            }
        }
    }
}

/// Packed-pair finders with pair offsets up to 254 (needles of 225..300 bytes) on haystacks whose length runs from the
/// finder's own min_haystack_len() upwards, ending exactly at a PROT_NONE page: the boundary "haystack just long
/// enough" for the largest offsets. One case per (needle length, pair, haystack length, content).
pub fn pp_extreme_cases() -> Vec<Value> {
    let mut v = Vec::new();
    for &nl in &[225usize, 240, 254, 255, 256, 300] {
        let cap = nl.min(255);
        for (a, b) in [(cap - 1, 0usize), (0, cap - 1), (cap - 1, cap - 2), (224, 0), (239, 1), (1, 223)] {
            if a >= cap || b >= cap || a == b {
                continue;
            }
            for extra in 0..40usize {
                for content in 0..2 {
                    v.push(json!({"m": "ppx", "nl": nl, "i1": a, "i2": b, "extra": extra, "content": content}));
                }
            }
        }
    }
    v
}

fn ppx_case(v: &Value, g: &mut G2, rep: &Report, cnt: &mut Counts) {
    let nl = get_u(v, "nl");
    let (i1, i2) = (get_u(v, "i1"), get_u(v, "i2"));
    let extra = get_u(v, "extra");
    let mut nv = vec![b'e'; nl];
    nv[i1] = b'Q';
    nv[i2] = b'Z';
    let pair = match Pair::with_indices(&nv, i1 as u8, i2 as u8) {
        Some(p) => p,
        None => return,
    };
    // haystack length = the finder's own minimum + extra (what a caller following the documentation would pass)
    let mut lens: Vec<(String, usize)> = Vec::new();
    #[cfg(verif_x86)]
    {
        use memchr::arch::x86_64::{avx2, sse2};
        if let Some(f) = sse2::packedpair::Finder::with_pair(&nv, pair) {
            lens.push(("sse2".into(), f.min_haystack_len() + extra));
        }
        if let Some(f) = avx2::packedpair::Finder::with_pair(&nv, pair) {
            lens.push(("avx2".into(), f.min_haystack_len() + extra));
        }
    }
    #[cfg(target_arch = "aarch64")]
    {
        if let Some(f) = memchr::arch::aarch64::neon::packedpair::Finder::with_pair(&nv, pair) {
            lens.push(("neon".into(), f.min_haystack_len() + extra));
        }
    }
    lens.push(("memmem".into(), nl + extra));
    for (who, hl) in lens {
        if hl > g.hay.cap() || hl < nl {
            continue;
        }
        let mut hv = vec![b'.'; hl];
        if get_u(v, "content") == 1 {
            hv[hl - nl..].copy_from_slice(&nv);
        }
        g.hay.fill(b'Q');
        g.ndl.fill(b'Z');
        let h: &[u8] = g.hay.at_end(&hv);
        let n: &[u8] = g.ndl.at_end(&nv);
        let ctx = || json!({"vector": v, "run": {"finder": who, "haystack_len": hl}});
        hook::start(&[(h.as_ptr() as usize, h.len()), (n.as_ptr() as usize, n.len())]);
        let _ = guard(|| {
            match who.as_str() {
                #[cfg(verif_x86)]
                "sse2" => {
                    let f = memchr::arch::x86_64::sse2::packedpair::Finder::with_pair(n, pair).unwrap();
                    let _ = f.find(h, n);
                    let _ = f.find_prefilter(h);
                }
                #[cfg(verif_x86)]
                "avx2" => {
                    let f = memchr::arch::x86_64::avx2::packedpair::Finder::with_pair(n, pair).unwrap();
                    let _ = f.find(h, n);
                    let _ = f.find_prefilter(h);
                }
                #[cfg(target_arch = "aarch64")]
                "neon" => {
                    let f = memchr::arch::aarch64::neon::packedpair::Finder::with_pair(n, pair).unwrap();
                    let _ = f.find(h, n);
                    let _ = f.find_prefilter(h);
                }
                _ => {
                    // the meta searcher picks its own pair with the default ranker (Q and Z are the rare bytes)
                    let _ = memmem::find(h, n);
                    let _ = memmem::Finder::new(n).find_iter(h).count();
                }
            }
        });
        let (ev, _) = hook::stop();
        cnt.add("guard_exec", 2);
        flag_events(rep, &ev, "packed-pair finder with extreme pair offsets", &ctx);
    }
}

pub fn replay(vs: &[Value], rep: &Report, threads: usize, seed: u64, tmp: &str, lifts: usize) {
    // the extreme-offset family is appended to substring vector files (once per run)
    let mut all: Vec<Value> = vs.to_vec();
    if vs.iter().any(|v| v.get("m").and_then(|x| x.as_str()) == Some("mm")) {
        all.extend(pp_extreme_cases());
    }
    let vs = &all[..];
    let crashes = run_isolated(vs.len(), 400, threads, tmp, rep, &|r, rep| {
        let mut g = G2 { hay: Guarded::new(2), ndl: Guarded::new(1) };
        let mut cnt = Counts::default();
        for i in r.clone() {
            let v = &vs[i];
            match v.get("m").and_then(|x| x.as_str()) {
                Some("generic") | Some("swar") => bytes_case(v, i, &mut g, rep, &mut cnt, seed),
                Some("mm") => sub_case(v, i, &mut g, rep, &mut cnt, seed, lifts),
                Some("ppx") => ppx_case(v, &mut g, rep, &mut cnt),
                _ => {}
            }
            cnt.add("vectors", 1);
        }
        rep.merge_counts(&cnt.0);
    });
    for (i, st) in crashes {
        // a fault (SIGSEGV / SIGBUS) is an access outside the slices; an exit through a Rust panic (code 101) or an
        // abort is a panic of the code under test -- a different property's business
        let sig = st & 0x7f;
        let class = if sig == 11 || sig == 7 { Class::Oob } else { Class::Panic };
        rep.finding(
            class,
            &format!("process died with {} while searching slices that abut PROT_NONE pages", describe_status(st)),
            json!({"vector": vs[i]}),
        );
    }
    for v in vs.iter().take(2) {
        rep.sample(v.clone());
    }
}
