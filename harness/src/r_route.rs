//! Conformance replay of ArchMemchr route vectors: for a haystack of the given
//! length (no match, so the whole haystack is scanned) the vector loads the
//! top-level functions perform under the given dispatch outcome must have the
//! width the F-spec predicts (none for the byte loop / SWAR, 16, or 32).
//! Differences are DRIFT (a refactor may legitimately change routing); the
//! answers themselves are checked (None / 0 expected: the haystack has no match).
use crate::util::*;
use memchr::verif as hook;
use serde_json::{json, Value};

pub fn replay(vs: &[Value], rep: &Report, force: &str) {
    memchr::verif::set_force(force);
    let mut cnt = Counts::default();
    for v in vs {
        if get_s(v, "avail") != force {
            continue;
        }
        let len = get_u(v, "len");
        let vb = get_u(v, "vb");
        for align in [0usize, 1, 17, 63] {
            let mut p = Placed::new(len, align, b'.');
            p.fill_slack(b'x');
            let h = p.slice();
            let calls: [(&str, Box<dyn Fn(&[u8]) -> i64>); 7] = [
                ("memchr", Box::new(|h: &[u8]| opt_to_i(memchr::memchr(b'x', h)))),
                ("memchr2", Box::new(|h: &[u8]| opt_to_i(memchr::memchr2(b'x', b'y', h)))),
                ("memchr3", Box::new(|h: &[u8]| opt_to_i(memchr::memchr3(b'x', b'y', b'z', h)))),
                ("memrchr", Box::new(|h: &[u8]| opt_to_i(memchr::memrchr(b'x', h)))),
                ("memrchr2", Box::new(|h: &[u8]| opt_to_i(memchr::memrchr2(b'x', b'y', h)))),
                ("memrchr3", Box::new(|h: &[u8]| opt_to_i(memchr::memrchr3(b'x', b'y', b'z', h)))),
                ("memchr_iter.count", Box::new(|h: &[u8]| memchr::memchr_iter(b'x', h).count() as i64 - 1)),
            ];
            for (name, f) in calls.iter() {
                hook::start(&[(h.as_ptr() as usize, h.len())]);
                let r = guard(|| f(h));
                let (ev, _) = hook::stop();
                cnt.add("route_exec", 1);
                match r {
                    Err(m) => rep.finding(Class::Panic, &format!("{name} panicked: {m}"), json!({"vector": v})),
                    Ok(x) if x != -1 => rep.finding(Class::Result, &format!("{name} on a haystack without a match returned {x}"), json!({"vector": v, "align": align})),
                    _ => {}
                }
                let sizes: std::collections::BTreeSet<usize> = ev.iter().filter(|e| e.kind == b'a' || e.kind == b'u').map(|e| e.size).collect();
                let want: std::collections::BTreeSet<usize> = if vb == 0 { Default::default() } else { [vb].into_iter().collect() };
                for e in &ev {
                    if !e.inb {
                        rep.finding(Class::Oob, &format!("{name}: load outside the haystack (len {len})"), json!({"vector": v, "align": align}));
                    }
                }
                // count_raw may serve a short haystack with its scalar head/tail alone: widths must be a subset there
                let ok = if name.contains("count") { sizes.is_subset(&want) } else { sizes == want };
                if !ok {
                    cnt.add("drift_route", 1);
                    rep.finding(Class::Drift, &format!("{name} (len {len}, {force}): vector load widths {:?}, route F-spec predicts {:?}", sizes, want), json!({"vector": v}));
                } else {
                    cnt.add("conform_route", 1);
                }
            }
        }
        cnt.add("vectors", 1);
    }
    rep.merge_counts(&cnt.0);
}
