//! Uniform access to every public byte-search backend of the crate.
#![allow(dead_code)]

/// Object-safe view of a double-ended match iterator.
pub trait It {
    fn next(&mut self) -> Option<usize>;
    fn next_back(&mut self) -> Option<usize>;
    fn size_hint(&self) -> (usize, Option<usize>);
    fn count_rest(self: Box<Self>) -> usize;
    fn clone_box<'s>(&self) -> Box<dyn It + 's>
    where
        Self: 's;
}
impl<I: DoubleEndedIterator<Item = usize> + Clone> It for I {
    fn next(&mut self) -> Option<usize> {
        Iterator::next(self)
    }
    fn next_back(&mut self) -> Option<usize> {
        DoubleEndedIterator::next_back(self)
    }
    fn size_hint(&self) -> (usize, Option<usize>) {
        Iterator::size_hint(self)
    }
    fn count_rest(self: Box<Self>) -> usize {
        Iterator::count(*self)
    }
    fn clone_box<'s>(&self) -> Box<dyn It + 's>
    where
        Self: 's,
    {
        Box::new(self.clone())
    }
}

/// One searcher for 1, 2 or 3 needle bytes from one backend.
pub trait Searcher {
    fn backend(&self) -> &'static str;
    fn find(&self, h: &[u8]) -> Option<usize>;
    fn rfind(&self, h: &[u8]) -> Option<usize>;
    /// None if the backend has no raw form.
    unsafe fn find_raw(&self, s: *const u8, e: *const u8) -> Option<Option<*const u8>>;
    unsafe fn rfind_raw(&self, s: *const u8, e: *const u8) -> Option<Option<*const u8>>;
    /// None if the backend has no count (only single-needle searchers do).
    fn count(&self, h: &[u8]) -> Option<usize>;
    unsafe fn count_raw(&self, s: *const u8, e: *const u8) -> Option<usize>;
    fn iter<'a>(&'a self, h: &'a [u8]) -> Box<dyn It + 'a>;
}

macro_rules! arch_backend {
    ($modname:ident, $name:expr, $path:path, $opt:tt) => {
        pub mod $modname {
            use super::{It, Searcher};
            use $path as m;
            pub struct S1(pub m::One);
            pub struct S2(pub m::Two);
            pub struct S3(pub m::Three);
            arch_backend!(@new $opt);
            impl Searcher for S1 {
                fn backend(&self) -> &'static str { $name }
                fn find(&self, h: &[u8]) -> Option<usize> { self.0.find(h) }
                fn rfind(&self, h: &[u8]) -> Option<usize> { self.0.rfind(h) }
                unsafe fn find_raw(&self, s: *const u8, e: *const u8) -> Option<Option<*const u8>> { Some(self.0.find_raw(s, e)) }
                unsafe fn rfind_raw(&self, s: *const u8, e: *const u8) -> Option<Option<*const u8>> { Some(self.0.rfind_raw(s, e)) }
                fn count(&self, h: &[u8]) -> Option<usize> { Some(self.0.count(h)) }
                unsafe fn count_raw(&self, s: *const u8, e: *const u8) -> Option<usize> { Some(self.0.count_raw(s, e)) }
                fn iter<'a>(&'a self, h: &'a [u8]) -> Box<dyn It + 'a> { Box::new(self.0.iter(h)) }
            }
            impl Searcher for S2 {
                fn backend(&self) -> &'static str { $name }
                fn find(&self, h: &[u8]) -> Option<usize> { self.0.find(h) }
                fn rfind(&self, h: &[u8]) -> Option<usize> { self.0.rfind(h) }
                unsafe fn find_raw(&self, s: *const u8, e: *const u8) -> Option<Option<*const u8>> { Some(self.0.find_raw(s, e)) }
                unsafe fn rfind_raw(&self, s: *const u8, e: *const u8) -> Option<Option<*const u8>> { Some(self.0.rfind_raw(s, e)) }
                fn count(&self, _h: &[u8]) -> Option<usize> { None }
                unsafe fn count_raw(&self, _s: *const u8, _e: *const u8) -> Option<usize> { None }
                fn iter<'a>(&'a self, h: &'a [u8]) -> Box<dyn It + 'a> { Box::new(self.0.iter(h)) }
            }
            impl Searcher for S3 {
                fn backend(&self) -> &'static str { $name }
                fn find(&self, h: &[u8]) -> Option<usize> { self.0.find(h) }
                fn rfind(&self, h: &[u8]) -> Option<usize> { self.0.rfind(h) }
                unsafe fn find_raw(&self, s: *const u8, e: *const u8) -> Option<Option<*const u8>> { Some(self.0.find_raw(s, e)) }
                unsafe fn rfind_raw(&self, s: *const u8, e: *const u8) -> Option<Option<*const u8>> { Some(self.0.rfind_raw(s, e)) }
                fn count(&self, _h: &[u8]) -> Option<usize> { None }
                unsafe fn count_raw(&self, _s: *const u8, _e: *const u8) -> Option<usize> { None }
                fn iter<'a>(&'a self, h: &'a [u8]) -> Box<dyn It + 'a> { Box::new(self.0.iter(h)) }
            }
        }
    };
    (@new opt) => {
        pub fn make(n: &[u8]) -> Option<Box<dyn Searcher>> {
            Some(match n.len() {
                1 => Box::new(S1(m::One::new(n[0])?)),
                2 => Box::new(S2(m::Two::new(n[0], n[1])?)),
                _ => Box::new(S3(m::Three::new(n[0], n[1], n[2])?)),
            })
        }
    };
    (@new plain) => {
        pub fn make(n: &[u8]) -> Option<Box<dyn Searcher>> {
            Some(match n.len() {
                1 => Box::new(S1(m::One::new(n[0]))),
                2 => Box::new(S2(m::Two::new(n[0], n[1]))),
                _ => Box::new(S3(m::Three::new(n[0], n[1], n[2]))),
            })
        }
    };
}

arch_backend!(all, "all", memchr::arch::all::memchr, plain);
#[cfg(verif_x86)]
arch_backend!(sse2, "sse2", memchr::arch::x86_64::sse2::memchr, opt);
#[cfg(verif_x86)]
arch_backend!(avx2, "avx2", memchr::arch::x86_64::avx2::memchr, opt);
#[cfg(target_arch = "aarch64")]
arch_backend!(neon, "neon", memchr::arch::aarch64::neon::memchr, opt);
#[cfg(verif_wasm)]
arch_backend!(simd128, "simd128", memchr::arch::wasm32::simd128::memchr, opt);

/// The crate's top-level functions and iterators.
pub struct Top(pub Vec<u8>);
impl Searcher for Top {
    fn backend(&self) -> &'static str {
        "top"
    }
    fn find(&self, h: &[u8]) -> Option<usize> {
        let n = &self.0;
        match n.len() {
            1 => memchr::memchr(n[0], h),
            2 => memchr::memchr2(n[0], n[1], h),
            _ => memchr::memchr3(n[0], n[1], n[2], h),
        }
    }
    fn rfind(&self, h: &[u8]) -> Option<usize> {
        let n = &self.0;
        match n.len() {
            1 => memchr::memrchr(n[0], h),
            2 => memchr::memrchr2(n[0], n[1], h),
            _ => memchr::memrchr3(n[0], n[1], n[2], h),
        }
    }
    unsafe fn find_raw(&self, _s: *const u8, _e: *const u8) -> Option<Option<*const u8>> {
        None
    }
    unsafe fn rfind_raw(&self, _s: *const u8, _e: *const u8) -> Option<Option<*const u8>> {
        None
    }
    fn count(&self, h: &[u8]) -> Option<usize> {
        if self.0.len() == 1 {
            Some(memchr::memchr_iter(self.0[0], h).count())
        } else {
            None
        }
    }
    unsafe fn count_raw(&self, _s: *const u8, _e: *const u8) -> Option<usize> {
        None
    }
    fn iter<'a>(&'a self, h: &'a [u8]) -> Box<dyn It + 'a> {
        let n = &self.0;
        match n.len() {
            1 => Box::new(memchr::memchr_iter(n[0], h)),
            2 => Box::new(memchr::memchr2_iter(n[0], n[1], h)),
            _ => Box::new(memchr::memchr3_iter(n[0], n[1], n[2], h)),
        }
    }
}

/// Every searcher available in this build for the given needles.
pub fn all_searchers(n: &[u8], only_top: bool) -> Vec<Box<dyn Searcher>> {
    let mut v: Vec<Box<dyn Searcher>> = vec![Box::new(Top(n.to_vec()))];
    if only_top {
        return v;
    }
    v.extend(all::make(n));
    #[cfg(verif_x86)]
    {
        v.extend(sse2::make(n));
        v.extend(avx2::make(n));
    }
    #[cfg(target_arch = "aarch64")]
    v.extend(neon::make(n));
    #[cfg(verif_wasm)]
    v.extend(simd128::make(n));
    v
}
