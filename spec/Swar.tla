------------------------------- MODULE Swar -------------------------------
(***************************************************************************)
(* L-layer model of src/arch/all/memchr.rs (portable SWAR fallback):       *)
(* One/Two/Three::find_raw and rfind_raw, generic in the word size WB.     *)
(* Input as in GenericMemchr (hay over {0,1}: 1 = equals some needle).     *)
(* has_needle(word) is modelled as "some byte of the word matches"; that   *)
(* the bit trick has_zero_byte computes exactly this is lemma              *)
(* HasZeroByteExact below (checked for all values of small lanes).         *)
(* Word loads are logged as <<kind, offset>>, kind "x" = read_unaligned,   *)
(* "w" = aligned read(); byte loops as <<"b", lo, hi>> ranges.             *)
(***************************************************************************)
EXTENDS Bytes

CONSTANT WB                      \* size_of::<usize>()

IsM(in, a) == in.hay[a - in.base + 1] # 0
WordHas(in, a) == \E k \in 0..WB - 1 : IsM(in, a + k)

RECURSIVE FwdBytes(_, _, _)      \* generic::fwd_byte_by_byte(lo, hi)
FwdBytes(in, lo, hi) == IF lo >= hi THEN -1 ELSE IF IsM(in, lo) THEN lo - in.base ELSE FwdBytes(in, lo + 1, hi)
RECURSIVE RevBytes(_, _, _)      \* generic::rev_byte_by_byte(lo, hi)
RevBytes(in, lo, hi) == IF hi <= lo THEN -1 ELSE IF IsM(in, hi - 1) THEN hi - 1 - in.base ELSE RevBytes(in, lo, hi - 1)

Init0(in) == [pc |-> "entry", cur |-> 0, res |-> -2, loads |-> <<>>, arms |-> {}, steps |-> 0, bad |-> FALSE]
Arm(st, x) == st.arms \cup {x}
Ld(st, in, k, a) == Append(st.loads, <<k, a - in.base>>)

\* One has a two-word unrolled loop and the `len <= LOOP_BYTES` shortcut.
LoopWords(in) == IF in.nn = 1 THEN 2 ELSE 1

StepFind(in, st) ==
  LET start == in.base  end == in.base + Len(in.hay)  len == Len(in.hay)
      LB == LoopWords(in) * WB
      bytes(lo, arm) == [st EXCEPT !.pc = "done", !.res = FwdBytes(in, lo, end), !.arms = Arm(st, arm),
                                   !.steps = @ + (IF FwdBytes(in, lo, end) < 0 THEN end - lo ELSE FwdBytes(in, lo, end) + in.base - lo + 1),
                                   !.bad = @ \/ lo > end]
  IN
  CASE st.pc = "entry" ->
         IF len = 0 THEN [st EXCEPT !.pc = "done", !.res = -1, !.arms = Arm(st, "empty")]
         ELSE IF len < WB THEN bytes(start, "short")
         ELSE LET s1 == [st EXCEPT !.loads = Ld(st, in, "x", start), !.steps = @ + 1] IN
              IF WordHas(in, start) THEN [bytes(start, "first_hit") EXCEPT !.loads = s1.loads]
              ELSE LET c == start + (WB - (start % WB)) IN
                   IF in.nn = 1 /\ len <= LB
                   THEN [s1 EXCEPT !.pc = "bytes", !.cur = c, !.arms = Arm(st, "le_loop")]
                   ELSE [s1 EXCEPT !.pc = "loop", !.cur = c, !.arms = Arm(st, "first_miss")]
    [] st.pc = "loop" ->
         IF st.cur + LB <= end
         THEN LET hit == \E w \in 0..LoopWords(in) - 1 : WordHas(in, st.cur + w * WB)
                  lds == st.loads \o [i \in 1..LoopWords(in) |-> <<"w", st.cur + (i - 1) * WB - in.base>>] IN
              IF hit THEN [st EXCEPT !.pc = "bytes", !.loads = lds, !.arms = Arm(st, "loop_break"), !.steps = @ + 1,
                                     !.bad = @ \/ (st.cur % WB # 0)]
              ELSE [st EXCEPT !.cur = st.cur + LB, !.loads = lds, !.arms = Arm(st, "loop_cont"), !.steps = @ + 1,
                              !.bad = @ \/ (st.cur % WB # 0)]
         ELSE [st EXCEPT !.pc = "bytes", !.arms = Arm(st, "loop_exit")]
    [] st.pc = "bytes" -> bytes(st.cur, "tail_bytes")

StepRfind(in, st) ==
  LET start == in.base  end == in.base + Len(in.hay)  len == Len(in.hay)
      LB == LoopWords(in) * WB
      bytes(hi, arm) == [st EXCEPT !.pc = "done", !.res = RevBytes(in, start, hi), !.arms = Arm(st, arm),
                                   !.steps = @ + (IF RevBytes(in, start, hi) < 0 THEN hi - start ELSE hi - (RevBytes(in, start, hi) + in.base)),
                                   !.bad = @ \/ hi < start]
  IN
  CASE st.pc = "entry" ->
         IF len = 0 THEN [st EXCEPT !.pc = "done", !.res = -1, !.arms = Arm(st, "empty")]
         ELSE IF len < WB THEN bytes(end, "short")
         ELSE LET s1 == [st EXCEPT !.loads = Ld(st, in, "x", end - WB), !.steps = @ + 1] IN
              IF WordHas(in, end - WB) THEN [bytes(end, "first_hit") EXCEPT !.loads = s1.loads]
              ELSE LET c == end - (end % WB) IN
                   IF in.nn = 1 /\ len <= LB
                   THEN [s1 EXCEPT !.pc = "bytes", !.cur = c, !.arms = Arm(st, "le_loop")]
                   ELSE [s1 EXCEPT !.pc = "loop", !.cur = c, !.arms = Arm(st, "first_miss")]
    [] st.pc = "loop" ->
         IF st.cur >= start + LB
         THEN LET hit == \E w \in 1..LoopWords(in) : WordHas(in, st.cur - w * WB)
                  lds == st.loads \o [i \in 1..LoopWords(in) |-> <<"w", st.cur - (LoopWords(in) + 1 - i) * WB - in.base>>] IN
              IF hit THEN [st EXCEPT !.pc = "bytes", !.loads = lds, !.arms = Arm(st, "loop_break"), !.steps = @ + 1,
                                     !.bad = @ \/ (st.cur % WB # 0)]
              ELSE [st EXCEPT !.cur = st.cur - LB, !.loads = lds, !.arms = Arm(st, "loop_cont"), !.steps = @ + 1,
                              !.bad = @ \/ (st.cur % WB # 0)]
         ELSE [st EXCEPT !.pc = "bytes", !.arms = Arm(st, "loop_exit")]
    [] st.pc = "bytes" -> bytes(st.cur, "tail_bytes")

\* count_raw is a plain byte loop
StepCount(in, st) ==
  [st EXCEPT !.pc = "done", !.res = CountMatch(in.hay, {1}), !.arms = Arm(st, "count_bytes"), !.steps = @ + Len(in.hay)]

Step(in, st) ==
  CASE in.op = "find" -> StepFind(in, st)
    [] in.op = "rfind" -> StepRfind(in, st)
    [] in.op = "count" -> StepCount(in, st)

RECURSIVE Run(_, _)
Run(in, st) == IF st.pc = "done" THEN st ELSE Run(in, Step(in, st))

Oracle(in) ==
  CASE in.op = "find" -> FirstMatch(in.hay, {1})
    [] in.op = "rfind" -> LastMatch(in.hay, {1})
    [] in.op = "count" -> CountMatch(in.hay, {1})

LoadsOK(in, st) ==
  \A i \in 1..Len(st.loads) :
     /\ InBounds(st.loads[i][2], WB, Len(in.hay))
     /\ (st.loads[i][1] = "w" => AlignedAt(in.base, st.loads[i][2], WB))

StepsLinear(in, st) == st.steps <= 2 * Len(in.hay) + 4 * WB + 4

---------------------------------------------------------------------------
(* The bit trick: has_zero_byte(x) = ((x - LO) & ~x & HI) # 0 on a word of *)
(* NL lanes of LB bits each, all arithmetic modulo 2^(NL*LB).              *)
Pow2(n) == 2 ^ n
LaneVal(x, k, LB) == (x \div Pow2(k * LB)) % Pow2(LB)
RECURSIVE SplatV(_, _, _)
SplatV(b, NL, LB) == IF NL = 0 THEN 0 ELSE b + Pow2(LB) * SplatV(b, NL - 1, LB)
\* bitwise operations via lanes of single bits
Bit(x, i) == (x \div Pow2(i)) % 2
RECURSIVE FromBits(_, _, _)
FromBits(f(_), i, n) == IF i >= n THEN 0 ELSE f(i) * Pow2(i) + FromBits(f, i + 1, n)
HasZeroByte(x, NL, LB) ==
  LET W == NL * LB
      lo == SplatV(1, NL, LB)
      hi == SplatV(Pow2(LB - 1), NL, LB)
      sub == (x - lo + Pow2(W)) % Pow2(W)
      g(i) == IF Bit(sub, i) = 1 /\ Bit(x, i) = 0 /\ Bit(hi, i) = 1 THEN 1 ELSE 0
  IN FromBits(g, 0, W) # 0
HasZeroByteExact(NL, LB) ==
  \A x \in 0..Pow2(NL * LB) - 1 : HasZeroByte(x, NL, LB) <=> (\E k \in 0..NL - 1 : LaneVal(x, k, LB) = 0)
=============================================================================
