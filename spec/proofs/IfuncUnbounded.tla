---------------------------- MODULE IfuncUnbounded ----------------------------
(***************************************************************************)
(* Unbounded supplement to Ifunc (C15), proved with TLAPS: for ANY number  *)
(* of threads, routines, calls and argument values, every call through the *)
(* dispatcher returns the sequential answer and only the implementation    *)
(* chosen by CPU detection is ever installed or invoked.                   *)
(* Relaxed loads are OVER-approximated: a load of FN[r] may return `detect`*)
(* or ANY value stored so far (no coherence restriction at all), so every  *)
(* behaviour of the bounded model Ifunc -- and of the hardware -- is a     *)
(* behaviour of this specification; safety proved here carries over.       *)
(***************************************************************************)
EXTENDS TLAPS

CONSTANTS Threads, Routines, Args, Chosen, Detect, Oracle(_, _)
ASSUME Distinct == Chosen # Detect

VARIABLES stored, pc, cur, rets

vars == <<stored, pc, cur, rets>>

\* what an installed function returns: the sequential answer for the call's own arguments
Apply(r, f, a) == Oracle(r, a)

Init == /\ stored = [r \in Routines |-> {}]
        /\ pc = [t \in Threads |-> "idle"]
        /\ cur \in [Threads -> [r : Routines, a : Args, f : {Detect}]]
        /\ rets = {}

Load(t) == /\ pc[t] = "idle"
           /\ \E r \in Routines : \E a \in Args : \E f \in {Detect} \cup stored[r] :
                cur' = [cur EXCEPT ![t] = [r |-> r, a |-> a, f |-> f]]
           /\ pc' = [pc EXCEPT ![t] = "loaded"]
           /\ UNCHANGED <<stored, rets>>
DoDetect(t) == /\ pc[t] = "loaded" /\ cur[t].f = Detect
               /\ cur' = [cur EXCEPT ![t] = [r |-> cur[t].r, a |-> cur[t].a, f |-> Chosen]]
               /\ pc' = [pc EXCEPT ![t] = "detected"]
               /\ UNCHANGED <<stored, rets>>
Store(t) == /\ pc[t] = "detected"
            /\ stored' = [stored EXCEPT ![cur[t].r] = @ \cup {cur[t].f}]
            /\ pc' = [pc EXCEPT ![t] = "call"]
            /\ UNCHANGED <<cur, rets>>
Direct(t) == /\ pc[t] = "loaded" /\ cur[t].f # Detect
             /\ pc' = [pc EXCEPT ![t] = "call"]
             /\ UNCHANGED <<stored, cur, rets>>
Invoke(t) == /\ pc[t] = "call"
             /\ rets' = rets \cup {<<cur[t].r, cur[t].a, cur[t].f, Apply(cur[t].r, cur[t].f, cur[t].a)>>}
             /\ pc' = [pc EXCEPT ![t] = "idle"]
             /\ UNCHANGED <<stored, cur>>
Next == \E t \in Threads : Load(t) \/ DoDetect(t) \/ Store(t) \/ Direct(t) \/ Invoke(t)
Spec == Init /\ [][Next]_vars

TypeOK == /\ stored \in [Routines -> SUBSET {Chosen}]
          /\ pc \in [Threads -> {"idle", "loaded", "detected", "call"}]
          /\ \A t \in Threads : cur[t].r \in Routines /\ cur[t].a \in Args /\ cur[t].f \in {Detect, Chosen}
          /\ DOMAIN cur = Threads
Staged == \A t \in Threads : pc[t] \in {"detected", "call"} => cur[t].f = Chosen
\* C15: every completed call was served by the chosen implementation and returned the sequential answer
AllSequential == \A x \in rets : x[3] = Chosen /\ x[4] = Oracle(x[1], x[2])
Inv == TypeOK /\ Staged /\ AllSequential

THEOREM InitInv == Init => Inv
<1> SUFFICES ASSUME Init PROVE Inv
  OBVIOUS
<1>1. stored \in [Routines -> SUBSET {Chosen}]
  BY DEF Init
<1>2. pc \in [Threads -> {"idle", "loaded", "detected", "call"}]
  BY DEF Init
<1>3. \A t \in Threads : cur[t].r \in Routines /\ cur[t].a \in Args /\ cur[t].f \in {Detect, Chosen}
  BY DEF Init
<1>4. DOMAIN cur = Threads
  BY DEF Init
<1>5. Staged
  BY DEF Init, Staged
<1>6. AllSequential
  BY DEF Init, AllSequential
<1> QED BY <1>1, <1>2, <1>3, <1>4, <1>5, <1>6 DEF Inv, TypeOK

THEOREM NextInv == Inv /\ [Next]_vars => Inv'
<1> SUFFICES ASSUME Inv, [Next]_vars PROVE Inv'
  OBVIOUS
<1> USE Distinct
<1>1. ASSUME NEW t \in Threads, Load(t) PROVE Inv'
  BY <1>1 DEF Load, Inv, TypeOK, Staged, AllSequential
<1>2. ASSUME NEW t \in Threads, DoDetect(t) PROVE Inv'
  BY <1>2 DEF DoDetect, Inv, TypeOK, Staged, AllSequential
<1>3. ASSUME NEW t \in Threads, Store(t) PROVE Inv'
  BY <1>3 DEF Store, Inv, TypeOK, Staged, AllSequential
<1>4. ASSUME NEW t \in Threads, Direct(t) PROVE Inv'
  BY <1>4 DEF Direct, Inv, TypeOK, Staged, AllSequential
<1>5. ASSUME NEW t \in Threads, Invoke(t) PROVE Inv'
  BY <1>5 DEF Invoke, Inv, TypeOK, Staged, AllSequential, Apply
<1>6. CASE UNCHANGED vars
  BY <1>6 DEF vars, Inv, TypeOK, Staged, AllSequential
<1> QED BY <1>1, <1>2, <1>3, <1>4, <1>5, <1>6 DEF Next

THEOREM Safety == Spec => []Inv
  BY InitInv, NextInv, PTL DEF Spec
=============================================================================
