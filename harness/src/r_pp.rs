//! S->I replay of PackedPair vectors (MC_PackedPair) on the real generic
//! packed-pair code at the model's width (hook facade), and -- padded so that
//! the minimum haystack length of the real widths is met -- on the public
//! SSE2 / AVX2 / portable finders with the same pair of offsets.
//! Also replay of Pair vectors (MC_Pair) on Pair::with_ranker / with_indices.
use crate::r_mm::TableRank;
use crate::util::*;
use memchr::arch::all::packedpair::{self, Pair};
use memchr::verif as hook;
use serde_json::{json, Value};

const MAPS: &[([u8; 3], u8)] = &[([b'a', b'b', b'c'], b'z'), ([0x00, 0x01, 0x02], 0xFF), ([0xFF, 0x00, 0x80], 0x7F), ([0x41, 0x01, 0x81], 0xC1), ([0x80, 0x7F, 0x81], 0x00)];

macro_rules! scaled_pp {
    ($vb:expr, $n:expr, $pair:expr, $h:expr, [$($w:literal),+]) => {
        match $vb {
            $($w => {
                let f = hook::PackedPair::<$w>::new($n, $pair);
                let ml = f.min_haystack_len();
                let a = guard(|| opt_to_i(f.find($h, $n)));
                let b = guard(|| opt_to_i(f.find_prefilter($h)));
                Some((ml, a, b))
            })+
            _ => None,
        }
    };
}

pub fn replay_pp_one(idx: usize, v: &Value, rep: &Report, cnt: &mut Counts, seed: u64) {
    let ns = get_bytes(v, "needle");
    let hs = get_bytes(v, "hay");
    let (i1, i2) = (get_u(v, "i1"), get_u(v, "i2"));
    let vb = get_u(v, "vb");
    let minlen = get_u(v, "minlen");
    let panic = v["panic"].as_bool().unwrap();
    let find = get_i(v, "find");
    let pre = get_i(v, "pre");
    let portable = get_i(v, "portable");
    let mloads = get_ints(v, "loads");
    let mploads = get_ints(v, "ploads");
    let j = idx.wrapping_add(seed as usize);
    let (map, pad) = MAPS[j % MAPS.len()];
    let n: Vec<u8> = ns.iter().map(|&c| map[c as usize]).collect();
    let h0: Vec<u8> = hs.iter().map(|&c| map[c as usize]).collect();
    let ctx = |e: &str| json!({"vector": v, "run": {"entry": e, "map": map}});
    let pair = match Pair::with_indices(&n, i1 as u8, i2 as u8) {
        Some(p) => p,
        None => {
            rep.finding(Class::Result, "Pair::with_indices rejected a pair of distinct in-range offsets", ctx("with_indices"));
            return;
        }
    };
    // (1) exact replay at the model's width
    let mut p = Placed::new(h0.len(), j % 64, pad);
    p.slice_mut().copy_from_slice(&h0);
    let h = p.slice();
    hook::start(&[(h.as_ptr() as usize, h.len()), (n.as_ptr() as usize, n.len())]);
    let r = scaled_pp!(vb, &n, pair, h, [2, 4, 8, 16, 32]);
    let (ev, _) = hook::stop();
    if let Some((ml, a, b)) = r {
        cnt.add("pp_scaled_exec", 2);
        if ml != minlen {
            // the documented contract is relative to the accessor's own value; its formula is conformance only
            rep.finding(Class::Drift, &format!("min_haystack_len() is {ml}, L-model max(|n|, max(i1,i2)+VB) = {minlen}"), ctx("min_haystack_len"));
        }
        // documented panic exactly when the haystack is shorter than the finder's own min_haystack_len() (C14)
        let panic = h.len() < ml;
        if ml != minlen {
            // the L-model's load/result predictions assume its own minimum: skip the exact comparison for this vector
            return;
        }
        for (name, got) in [("find", &a), ("find_prefilter", &b)] {
            match (got, panic) {
                (Err(_), true) => {}
                (Ok(_), true) => rep.finding(Class::Panic, &format!("packed-pair {name} did not panic on a haystack shorter than min_haystack_len"), ctx(name)),
                (Err(m), false) => rep.finding(Class::Panic, &format!("packed-pair {name} panicked inside its documented domain: {m}"), ctx(name)),
                (Ok(_), false) => {}
            }
        }
        if !panic {
            if let Ok(g) = a {
                if g != find {
                    rep.finding(Class::Result, &format!("scaled packed-pair find returned {g}, oracle {find}"), ctx("find"));
                }
            }
            if let Ok(g) = b {
                prefilter_sound(rep, "scaled packed-pair find_prefilter", g, find, &n, h, i1, i2, &ctx);
                if g != pre {
                    cnt.add("drift_pre", 1);
                    rep.finding(Class::Drift, &format!("scaled find_prefilter candidate {g} differs from the L-model's {pre}"), ctx("find_prefilter"));
                }
            }
            for e in &ev {
                if !e.inb {
                    rep.finding(Class::Oob, &format!("scaled packed-pair: load of {} bytes at haystack offset {} outside the slices", e.size, e.addr as i64 - h.as_ptr() as i64), ctx("loads"));
                }
            }
            let base = h.as_ptr() as i64;
            let obs: Vec<i64> = ev.iter().filter(|e| e.kind == b'u').map(|e| e.addr as i64 - base).collect();
            let mut want = mloads.clone();
            want.extend(mploads.iter());
            if obs == want {
                cnt.add("conform_loads", 1);
            } else {
                cnt.add("drift_loads", 1);
                rep.finding(Class::Drift, "packed-pair vector load sequence differs from the L-model", json!({"vector": v, "observed": obs}));
            }
        }
    }
    // (2) portable prefilter: exact
    if let Some(f) = packedpair::Finder::with_pair(&n, pair) {
        cnt.add("pp_real_exec", 1);
        match guard(|| opt_to_i(f.find_prefilter(h))) {
            Err(m) => rep.finding(Class::Panic, &format!("portable find_prefilter panicked: {m}"), ctx("portable")),
            Ok(g) => {
                prefilter_sound(rep, "all::packedpair::find_prefilter", g, find_or(&n, h, find, panic), &n, h, i1, i2, &ctx);
                if g != portable {
                    rep.finding(Class::Drift, &format!("portable prefilter candidate {g} differs from the model's {portable}"), ctx("portable"));
                }
                if f.pair().index1() as usize != i1 || f.pair().index2() as usize != i2 {
                    rep.finding(Class::Pair, "all::packedpair finder reports a different pair than it was given", ctx("pair"));
                }
            }
        }
    }
    // (3) real widths: pad on the right with a byte outside the alphabet until min_haystack_len is met
    if !panic {
        #[cfg(verif_x86)]
        {
            use memchr::arch::x86_64::{avx2, sse2};
            for extra in [0usize, 1, 17] {
                let mut hp = h0.clone();
                let need = n.len().max(i1.max(i2) + 16);
                while hp.len() < need + extra {
                    hp.push(pad);
                }
                if let Some(f) = sse2::packedpair::Finder::with_pair(&n, pair) {
                    real_pp(rep, cnt, "sse2", hp.len() >= f.min_haystack_len(), f.min_haystack_len(), need, guard(|| opt_to_i(f.find(&hp, &n))), guard(|| opt_to_i(f.find_prefilter(&hp))), find, &n, &hp, i1, i2, &ctx);
                    if f.pair().index1() as usize != i1 || f.pair().index2() as usize != i2 {
                        rep.finding(Class::Pair, "sse2 finder reports a different pair than it was given", ctx("pair"));
                    }
                }
                if let Some(f) = avx2::packedpair::Finder::with_pair(&n, pair) {
                    if f.pair().index1() as usize != i1 || f.pair().index2() as usize != i2 {
                        rep.finding(Class::Pair, "avx2 finder reports a different pair than it was given", ctx("pair"));
                    }
                    real_pp(rep, cnt, "avx2", hp.len() >= f.min_haystack_len(), f.min_haystack_len(), need, guard(|| opt_to_i(f.find(&hp, &n))), guard(|| opt_to_i(f.find_prefilter(&hp))), find, &n, &hp, i1, i2, &ctx);
                }
                // AVX2 instance proper: pad to its own minimum
                let need32 = n.len().max(i1.max(i2) + 32);
                let mut hq = h0.clone();
                while hq.len() < need32 + extra {
                    hq.push(pad);
                }
                if let Some(f) = avx2::packedpair::Finder::with_pair(&n, pair) {
                    real_pp(rep, cnt, "avx2", true, f.min_haystack_len(), need, guard(|| opt_to_i(f.find(&hq, &n))), guard(|| opt_to_i(f.find_prefilter(&hq))), find, &n, &hq, i1, i2, &ctx);
                }
            }
        }
    }
}

fn find_or(_n: &[u8], _h: &[u8], find: i64, panic: bool) -> i64 {
    // when the scaled finder panics (haystack below its minimum) the vector carries no oracle value for
    // find (-2); the portable prefilter is then only checked for candidate validity
    if panic {
        -2
    } else {
        find
    }
}

#[allow(clippy::too_many_arguments)]
fn real_pp(rep: &Report, cnt: &mut Counts, name: &str, in_domain: bool, ml: usize, want_ml: usize, a: Result<i64, String>, b: Result<i64, String>, find: i64, n: &[u8], h: &[u8], i1: usize, i2: usize, ctx: &dyn Fn(&str) -> Value) {
    cnt.add("pp_real_exec", 2);
    if ml != want_ml {
        rep.finding(Class::Drift, &format!("{name} min_haystack_len() is {ml}, L-model max(|n|, max(i1,i2)+16) = {want_ml}"), ctx(name));
    }
    if !in_domain {
        return;
    }
    match a {
        Err(m) => rep.finding(Class::Panic, &format!("{name}::packedpair::find panicked inside its documented domain: {m}"), ctx(name)),
        Ok(g) => {
            if g != find {
                rep.finding(Class::Result, &format!("{name}::packedpair::find returned {g}, oracle {find} (haystack padded to {} bytes)", h.len()), ctx(name));
            }
        }
    }
    match b {
        Err(m) => rep.finding(Class::Panic, &format!("{name}::packedpair::find_prefilter panicked inside its documented domain: {m}"), ctx(name)),
        Ok(g) => prefilter_sound(rep, &format!("{name}::packedpair::find_prefilter"), g, find, n, h, i1, i2, ctx),
    }
}

#[allow(clippy::too_many_arguments)]
fn prefilter_sound(rep: &Report, entry: &str, cand: i64, find: i64, n: &[u8], h: &[u8], i1: usize, i2: usize, ctx: &dyn Fn(&str) -> Value) {
    if find >= 0 && (cand < 0 || cand > find) {
        rep.finding(Class::Result, &format!("{entry} returned {cand} but the first occurrence is at {find}: a real match would be skipped"), ctx(entry));
    }
    if cand >= 0 {
        let p = cand as usize;
        if p + i1 >= h.len() || p + i2 >= h.len() || h[p + i1] != n[i1] || h[p + i2] != n[i2] {
            rep.finding(Class::Result, &format!("{entry} returned candidate {cand} where the two selected needle bytes are not present"), ctx(entry));
        }
    }
}

pub fn replay_pp(vs: &[Value], rep: &Report, threads: usize, seed: u64) {
    let idx: Vec<usize> = (0..vs.len()).collect();
    par_chunks(&idx, threads, |_, ch| {
        let mut cnt = Counts::default();
        for &i in ch {
            replay_pp_one(i, &vs[i], rep, &mut cnt, seed);
            cnt.add("vectors", 1);
        }
        rep.merge_counts(&cnt.0);
    });
    for v in vs.iter().rev().take(2) {
        rep.sample(v.clone());
    }
}

/// Pair vectors: {needle, rank: [r0,r1,r2], none, i1, i2, acc: [[a,b,ok],...]}
pub fn replay_pair_one(idx: usize, v: &Value, rep: &Report, cnt: &mut Counts, seed: u64) {
    let ns = get_bytes(v, "needle");
    // finders built from the selected pair must report it (C19, last sentence)
    let rank = get_bytes(v, "rank");
    let none = v["none"].as_bool().unwrap();
    let cap = get_u(v, "cap");
    let (mi1, mi2) = (get_i(v, "i1"), get_i(v, "i2"));
    let j = idx.wrapping_add(seed as usize);
    let (map, _) = MAPS[j % MAPS.len()];
    let n: Vec<u8> = ns.iter().map(|&c| map[c as usize]).collect();
    let mut t = [128u8; 256];
    for (s, &r) in rank.iter().enumerate() {
        // spread the abstract ranks over 0..=255 keeping order and ties
        t[map[s] as usize] = [0u8, 100, 255][r as usize % 3];
    }
    let ctx = |e: &str| json!({"vector": v, "run": {"entry": e, "map": map}});
    cnt.add("pair_exec", 1);
    match guard(|| Pair::with_ranker(&n, TableRank(t)).map(|p| (p.index1() as i64, p.index2() as i64))) {
        Err(m) => rep.finding(Class::Panic, &format!("Pair::with_ranker panicked: {m}"), ctx("with_ranker")),
        Ok(None) => {
            if !none {
                rep.finding(Class::Result, "Pair::with_ranker returned None for a needle of at least 2 bytes", ctx("with_ranker"));
            }
        }
        Ok(Some((a, b))) => {
            if none {
                rep.finding(Class::Result, "Pair::with_ranker returned a pair for a needle shorter than 2 bytes", ctx("with_ranker"));
            } else {
                if a == b || a as usize >= n.len() || b as usize >= n.len() || a > 254 || b > 254 {
                    rep.finding(Class::Result, &format!("Pair::with_ranker returned invalid offsets ({a},{b}) for a needle of {} bytes", n.len()), ctx("with_ranker"));
                }
                if n.len() > cap && cap < 255 {
                    // the model's scan cap is scaled down: beyond it the code (cap 255) legitimately sees more of the needle
                    cnt.add("beyond_scaled_cap", 1);
                } else if (a, b) != (mi1, mi2) {
                    cnt.add("drift_pair", 1);
                    rep.finding(Class::Drift, &format!("selected pair ({a},{b}) differs from the L-model's ({mi1},{mi2})"), ctx("with_ranker"));
                } else {
                    cnt.add("conform_pair", 1);
                }
            }
        }
    }
    for e in v["acc"].as_array().unwrap() {
        let (a, b, ok) = (e[0].as_u64().unwrap() as u8, e[1].as_u64().unwrap() as u8, e[2].as_bool().unwrap());
        cnt.add("pair_exec", 1);
        let got = Pair::with_indices(&n, a, b);
        if got.is_some() != ok {
            rep.finding(Class::Result, &format!("Pair::with_indices({a},{b}) on a needle of {} bytes: accepted={}, oracle {}", n.len(), got.is_some(), ok), ctx("with_indices"));
        }
        if let Some(p) = got {
            if p.index1() != a || p.index2() != b {
                rep.finding(Class::Result, "Pair::with_indices returned different offsets than given", ctx("with_indices"));
            }
        }
    }
}

pub fn replay_pair(vs: &[Value], rep: &Report, threads: usize, seed: u64) {
    let idx: Vec<usize> = (0..vs.len()).collect();
    par_chunks(&idx, threads, |_, ch| {
        let mut cnt = Counts::default();
        for &i in ch {
            replay_pair_one(i, &vs[i], rep, &mut cnt, seed);
            cnt.add("vectors", 1);
        }
        rep.merge_counts(&cnt.0);
    });
    for v in vs.iter().rev().take(2) {
        rep.sample(v.clone());
    }
}
