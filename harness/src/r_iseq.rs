//! S->I replay of IsEqual vectors: is_equal / is_equal_raw / is_prefix /
//! is_suffix with both operands at all relative alignments and abutting
//! PROT_NONE pages on either side.
use crate::r_generic::check_events;
use crate::util::*;
use memchr::arch::all::{is_equal, is_equal_raw, is_prefix, is_suffix};
use memchr::verif as hook;
use serde_json::{json, Value};

const VALS: &[(u8, u8)] = &[(b'a', b'b'), (0x00, 0x01), (0x00, 0x80), (0xFF, 0x7F), (0x7F, 0x80), (0xFE, 0xFF), (0x55, 0xAA), (0x10, 0x00)];

fn mapv(s: &[u8], v: (u8, u8)) -> Vec<u8> {
    s.iter().map(|&c| if c == 0 { v.0 } else { v.1 }).collect()
}

pub fn replay_one(idx: usize, v: &Value, rep: &Report, cnt: &mut Counts, g: &mut [Guarded; 2], seed: u64) {
    let xs = get_bytes(v, "x");
    let ys = get_bytes(v, "y");
    let eq = v["eq"].as_bool().unwrap();
    let pre = v["pre"].as_bool().unwrap();
    let suf = v["suf"].as_bool().unwrap();
    let mloads: Vec<(usize, i64)> = v["loads"].as_array().unwrap().iter().map(|l| (l[0].as_u64().unwrap() as usize, l[1].as_i64().unwrap())).collect();
    let j = idx.wrapping_add(seed as usize);
    for var in 0..2 {
        let vals = VALS[(j + var * 3) % VALS.len()];
        let xb = mapv(&xs, vals);
        let yb = mapv(&ys, vals);
        // placements: heap at every relative alignment (cycled), guard page ends, guard page starts
        for place in 0..5 {
            let (mut px, mut py);
            let (x, y): (&[u8], &[u8]) = match place {
                0 => {
                    px = Placed::new(xb.len(), (j + var) % 8, 0xEE);
                    py = Placed::new(yb.len(), ((j + var) / 8) % 8, 0xEE);
                    px.slice_mut().copy_from_slice(&xb);
                    py.slice_mut().copy_from_slice(&yb);
                    // decoys in the slack equal on both sides, so an over-read cannot see a difference
                    (px.slice(), py.slice())
                }
                1 => {
                    let (a, b) = g.split_at_mut(1);
                    (a[0].at_end(&xb), b[0].at_end(&yb))
                }
                2 => {
                    let (a, b) = g.split_at_mut(1);
                    (a[0].at_start(&xb), b[0].at_start(&yb))
                }
                3 => {
                    // aliasing operands that start at the same address (possible when one is a prefix of the other)
                    let (long, short) = if xb.len() >= yb.len() { (&xb, &yb) } else { (&yb, &xb) };
                    if long[..short.len()] != short[..] {
                        continue;
                    }
                    px = Placed::new(long.len(), j % 8, 0xEE);
                    px.slice_mut().copy_from_slice(long);
                    let l = px.slice();
                    (&l[..xb.len()], &l[..yb.len()])
                }
                _ => {
                    // aliasing operands that end at the same address (one is a suffix of the other)
                    let (long, short) = if xb.len() >= yb.len() { (&xb, &yb) } else { (&yb, &xb) };
                    if long[long.len() - short.len()..] != short[..] {
                        continue;
                    }
                    px = Placed::new(long.len(), j % 8, 0xEE);
                    px.slice_mut().copy_from_slice(long);
                    let l = px.slice();
                    (&l[l.len() - xb.len()..], &l[l.len() - yb.len()..])
                }
            };
            let pname = ["heap", "page-end", "page-start", "alias-same-start", "alias-same-end"][place];
            let run = json!({"vals": [vals.0, vals.1], "placement": pname});
            let ctx = || json!({"vector": v, "run": run});
            hook::start(&[(x.as_ptr() as usize, x.len()), (y.as_ptr() as usize, y.len())]);
            let got = guard(|| {
                let raw = if x.len() == y.len() { Some(unsafe { is_equal_raw(x.as_ptr(), y.as_ptr(), x.len()) }) } else { None };
                (is_equal(x, y), is_prefix(x, y), is_suffix(x, y), raw)
            });
            let (ev, _) = hook::stop();
            cnt.add("iseq_exec", 4);
            match got {
                Err(m) => rep.finding(Class::Panic, &format!("is_equal family panicked: {m}"), ctx()),
                Ok((e, p, s, raw)) => {
                    if e != eq {
                        rep.finding(Class::Result, &format!("is_equal returned {e}, oracle {eq}"), ctx());
                    }
                    if p != pre {
                        rep.finding(Class::Result, &format!("is_prefix returned {p}, oracle {pre}"), ctx());
                    }
                    if s != suf {
                        rep.finding(Class::Result, &format!("is_suffix returned {s}, oracle {suf}"), ctx());
                    }
                    if let Some(r) = raw {
                        if r != eq {
                            rep.finding(Class::Result, &format!("is_equal_raw returned {r}, oracle {eq}"), ctx());
                        }
                    }
                }
            }
            // all recorded loads inside one of the two operands
            let both: Vec<hook::Event> = ev.clone();
            for e in &both {
                if !e.inb {
                    rep.finding(Class::Oob, &format!("is_equal family: load of {} bytes outside both operands", e.size), ctx());
                }
            }
            let _ = check_events;
            // conformance of the raw call's load sequence (first call in the closure) with the L-model
            if place == 0 && var == 0 && xs.len() == ys.len() {
                let xbase = x.as_ptr() as i64;
                let obs: Vec<(usize, i64)> = ev.iter().filter(|e| e.kind == b'x' && (e.addr as i64) >= xbase && (e.addr as i64) < xbase + x.len() as i64 + 8)
                    .map(|e| (e.size, e.addr as i64 - xbase)).collect();
                let n = mloads.len();
                if obs.len() >= n && obs[..n] == mloads[..] {
                    cnt.add("conform_loads", 1);
                } else if !ev.is_empty() {
                    cnt.add("drift_loads", 1);
                    rep.finding(Class::Drift, "is_equal_raw load sequence differs from the L-model", json!({"vector": v, "observed": obs}));
                }
            }
        }
    }
}

pub fn replay(vs: &[Value], rep: &Report, threads: usize, seed: u64) {
    let idx: Vec<usize> = (0..vs.len()).collect();
    par_chunks(&idx, threads, |_, ch| {
        let mut cnt = Counts::default();
        let mut g = [Guarded::new(1), Guarded::new(1)];
        g[0].fill(0xEE);
        g[1].fill(0xEE);
        for &i in ch {
            replay_one(i, &vs[i], rep, &mut cnt, &mut g, seed);
            cnt.add("vectors", 1);
        }
        rep.merge_counts(&cnt.0);
    });
    for v in vs.iter().rev().take(2) {
        rep.sample(v.clone());
    }
}
