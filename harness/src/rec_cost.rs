//! I->S recorder for C13: adversarial (needle, haystack) families at
//! geometrically growing sizes; every record carries only sizes and the
//! deterministic step counters of the hooks (no timing). TLC validates the
//! linear bound (spec/Trace_Cost.tla).
use crate::util::*;
use memchr::memmem::{FinderBuilder, Prefilter};
use memchr::verif as hook;
use serde_json::{json, Value};
use std::io::Write;

fn rep(b: &[u8], n: usize) -> Vec<u8> {
    b.iter().cycle().take(n).cloned().collect()
}

fn fib(n: usize) -> Vec<u8> {
    let (mut a, mut b) = (vec![b'a'], vec![b'a', b'b']);
    while b.len() < n {
        let c = [b.clone(), a.clone()].concat();
        a = b;
        b = c;
    }
    b.truncate(n);
    b
}

fn thue(n: usize) -> Vec<u8> {
    (0..n).map(|i| if (i as u64).count_ones() % 2 == 0 { b'a' } else { b'b' }).collect()
}

/// (family name, needle, haystack)
pub fn families(m: usize, n: usize, seed: u64) -> Vec<(&'static str, Vec<u8>, Vec<u8>)> {
    let mut out: Vec<(&'static str, Vec<u8>, Vec<u8>)> = Vec::new();
    let m = m.max(2);
    // a^(m-1) b in a^n : every position is a candidate, memcmp runs long
    let mut nd = vec![b'a'; m];
    nd[m - 1] = b'b';
    out.push(("a^(m-1)b in a^n", nd.clone(), vec![b'a'; n]));
    // b a^(m-1) in a^n
    let mut nd2 = vec![b'a'; m];
    nd2[0] = b'b';
    out.push(("b a^(m-1) in a^n", nd2, vec![b'a'; n]));
    // a^m in (a^(m-1) b)^r
    let mut unit = vec![b'a'; m];
    unit[m - 1] = b'b';
    out.push(("a^m in (a^(m-1)b)^r", vec![b'a'; m], rep(&unit, n)));
    // unbalanced critical factorisation: "cb" a^(m-2) in a^n, and after a prefix that exhausts the prefilter
    let mut nd3 = vec![b'a'; m];
    nd3[0] = b'c';
    if m > 1 {
        nd3[1] = b'b';
    }
    out.push(("cb a^(m-2) in a^n", nd3.clone(), vec![b'a'; n]));
    let mut h = rep(b"cb", 128.min(n));
    h.extend(vec![b'a'; n.saturating_sub(h.len())]);
    out.push(("cb a^(m-2) in (cb)^64 a^n", nd3, h));
    // periodic needle in a haystack made of its near-periods
    let p = rep(b"ab", m - 1);
    let mut nd4 = p.clone();
    nd4.push(b'c');
    out.push(("(ab)^k c in (ab)^n", nd4, rep(b"ab", n)));
    let mut nd5 = rep(b"aab", m);
    let l5 = nd5.len();
    nd5[l5 - 1] = b'c';
    out.push(("(aab)^k.. c in (aab)^n", nd5, rep(b"aab", n)));
    // the two rare bytes recur at every haystack position
    let mut nd6 = rep(b"qz", m);
    let l6 = nd6.len();
    nd6[l6 / 2] = b'x';
    out.push(("(qz)^k with x in (qz)^n", nd6, rep(b"qz", n)));
    // Fibonacci / Thue-Morse words
    out.push(("fibonacci", fib(m), fib(n)));
    let mut f2 = fib(m);
    let lf = f2.len();
    f2[lf - 1] ^= 3;
    out.push(("fibonacci near-miss", f2, fib(n)));
    out.push(("thue-morse", thue(m), thue(n)));
    // a huge candidate-free prefix followed by dense false candidates (keeps the adaptive prefilter switched on)
    let mut nd7 = rep(b"xy", m);
    nd7[0] = b'Q';
    let l7 = nd7.len();
    nd7[l7 - 1] = b'Z';
    let mut h7 = vec![b'-'; n / 2];
    let mut dense = nd7.clone();
    dense[l7 / 2] = b'!';
    h7.extend(rep(&dense, n - n / 2));
    out.push(("free prefix then dense false candidates", nd7, h7));
    // large period with a self-overlapping right part: a^(m-k-1) c a^k, after a long candidate-free prefix that keeps the
    // adaptive prefilter switched on, then a region where every position is a (false) candidate
    let k = (m / 8).max(1).min(m - 1);
    let mut nd8 = vec![b'a'; m];
    nd8[m - k - 1] = b'c';
    let mut h8 = vec![b'z'; n / 2];
    h8.extend(vec![b'a'; n - n / 2]);
    out.push(("a^j c a^k in z^(n/2) a^(n/2)", nd8.clone(), h8));
    out.push(("a^j c a^k in a^n", nd8, vec![b'a'; n]));
    // the mirror shape: a short left part (long enough that both prefilter bytes come from it) and a long
    // self-overlapping right part, so that the critical position lies after the 'c'
    if m >= 600 {
        let mut nd9 = vec![b'a'; m];
        nd9[300] = b'c';
        let mut h9 = vec![b'z'; n / 2];
        h9.extend(vec![b'a'; n - n / 2]);
        out.push(("a^300 c a^k in z^(n/2) a^(n/2)", nd9.clone(), h9));
        let mut h10 = rep(b"zzzzzzzzza", n / 2);
        h10.extend(vec![b'a'; n - n / 2]);
        out.push(("a^300 c a^k in (z^9 a)^r a^(n/2)", nd9, h10));
    }
    // needle occurs everywhere (find_iter yields n/m matches)
    out.push(("a^m in a^n", vec![b'a'; m], vec![b'a'; n]));
    // seeded random over a 2-letter alphabet, needle cut from the haystack
    let mut r = Rng::new(seed ^ (m as u64) << 20 ^ n as u64);
    let hr: Vec<u8> = (0..n).map(|_| if r.chance(1, 2) { b'a' } else { b'b' }).collect();
    let st = r.below(n.saturating_sub(m).max(1));
    let mut ndr = hr[st..(st + m).min(n)].to_vec();
    if let Some(x) = ndr.last_mut() {
        *x = b'c';
    }
    out.push(("random binary, needle = factor with last byte changed", ndr, hr));
    out
}

fn ticks_json(t0: &[u64; hook::NCLASS]) -> Value {
    // saturate so that sums stay inside TLC's 32-bit integers
    let mut t = *t0;
    for x in t.iter_mut() {
        *x = (*x).min(1 << 27);
    }
    json!({"cmp": t[hook::T_CMP], "tw": t[hook::T_TW], "rk": t[hook::T_RK], "pp": t[hook::T_PP], "pre": t[hook::T_PRE], "prep": t[hook::T_PREP], "mc": t[hook::T_MC]})
}

/// Build finders for `nd` and run every search operation on `h`, one cost record per operation.
fn ops_on(f: &mut impl Write, fam: &str, nd: &[u8], h: &[u8], force: &str) -> u64 {
    let mut nrec = 0u64;
    for pf in ["auto", "none"] {
        let pfc = if pf == "auto" { Prefilter::Auto } else { Prefilter::None };
        let mut emit = |op: &str, t: [u64; hook::NCLASS], result: i64| {
            let r = json!({"k": "cost", "family": fam, "op": op, "prefilter": pf, "force": force, "nlen": nd.len(), "hlen": h.len(), "ticks": ticks_json(&t), "result": result});
            writeln!(f, "{}", r).unwrap();
            nrec += 1;
        };
        hook::start(&[]);
        let fw = FinderBuilder::new().prefilter(pfc).build_forward(nd);
        let (_, t) = hook::stop();
        emit("build_forward", t, 0);
        hook::start(&[]);
        let r = fw.find(h);
        let (_, t) = hook::stop();
        emit("find", t, opt_to_i(r));
        hook::start(&[]);
        let c = fw.find_iter(h).count();
        let (_, t) = hook::stop();
        emit("find_iter", t, c as i64);
        if pf == "auto" {
            hook::start(&[]);
            let rv = FinderBuilder::new().build_reverse(nd);
            let (_, t) = hook::stop();
            emit("build_reverse", t, 0);
            hook::start(&[]);
            let r = rv.rfind(h);
            let (_, t) = hook::stop();
            emit("rfind", t, opt_to_i(r));
            hook::start(&[]);
            let c = rv.rfind_iter(h).count();
            let (_, t) = hook::stop();
            emit("rfind_iter", t, c as i64);
            hook::start(&[]);
            let r = memchr::memmem::find(h, nd);
            let (_, t) = hook::stop();
            emit("memmem::find", t, opt_to_i(r));
        }
    }
    nrec
}

pub fn record(out_path: &str, max_hay_log2: u32, seed: u64, force: &str) -> u64 {
    memchr::verif::set_force(force);
    let mut f = std::io::BufWriter::new(std::fs::File::create(out_path).unwrap());
    let mut nrec = 0u64;
    // sizes on both sides of the routing thresholds (32/33) and of the 8-bit boundaries (255/256/257, 2^k + small)
    let needle_sizes = [2usize, 3, 8, 17, 31, 32, 33, 64, 200, 255, 256, 257, 272, 288, 289, 520, 1024, 1040, 4096];
    let mut hay_sizes = Vec::new();
    let mut e = 8;
    while e <= max_hay_log2 {
        hay_sizes.push(1usize << e);
        e += 2;
    }
    for &n in &hay_sizes {
        for &m in &needle_sizes {
            if m * 2 > n {
                continue;
            }
            for (fam, nd, h) in families(m, n, seed) {
                nrec += ops_on(&mut f, fam, &nd, &h, force);
            }
        }
    }
    // haystacks shorter than twice the needle (|n| <= |h| < 2|n|): the routes that are only meant for tiny haystacks
    // (Rabin-Karp) must not be taken here, and the vector / Two-Way routes see a single window's worth of slack
    for &m in &[64usize, 200, 256, 520, 1024, 4096] {
        for n in [m, m + 1, m + m / 2, 2 * m - 1] {
            let mut fams: Vec<(String, Vec<u8>, Vec<u8>)> = families(m, n, seed).into_iter().map(|(a, b, c)| (format!("short haystack: {a}"), b, c)).collect();
            let mut nd = vec![b'a'; m];
            nd[m - 40] = b'b';
            fams.push(("short haystack: a^(m-40) b a^39 in a^n".to_string(), nd, vec![b'a'; n]));
            let mut nd = vec![b'a'; m];
            nd[39] = b'b';
            fams.push(("short haystack: a^39 b a^(m-40) in a^n".to_string(), nd, vec![b'a'; n]));
            for (fam, nd, h) in fams {
                nrec += ops_on(&mut f, &fam, &nd, &h, force);
            }
        }
    }
    // preprocessing only (C13: "building a finder ..."): needle shapes, their mirror images and shapes built around a
    // defect in the middle, at sizes up to 16384; the bound for build operations is CMUL * |needle| + CADD
    for &m in &[2usize, 3, 8, 33, 64, 255, 256, 257, 1024, 4096, 16384] {
        let mut shapes: Vec<(String, Vec<u8>)> = families(m, 2 * m, seed).into_iter().map(|(fam, nd, _)| (fam.to_string(), nd)).collect();
        let k = (m / 2).max(1);
        let mut s1 = vec![b'a'; 2 * k + 1];
        s1[0] = b'b';
        s1[k] = b'c';
        shapes.push(("b a^(k-1) c a^k".to_string(), s1));
        let mut s2 = vec![b'a'; 2 * k + 1];
        s2[k] = b'b';
        shapes.push(("a^k b a^k".to_string(), s2));
        let mut s3 = rep(b"ab", 2 * k);
        s3.push(b'a');
        shapes.push(("(ab)^k a".to_string(), s3));
        let mut s4 = rep(b"aab", 2 * k);
        s4[k] = b'c';
        shapes.push(("(aab)^j with c in the middle".to_string(), s4));
        let mut r = Rng::new(seed ^ 0xC05E ^ m as u64);
        let s5: Vec<u8> = (0..m).map(|_| if r.chance(7, 8) { b'a' } else { b'b' }).collect();
        shapes.push(("random, mostly a".to_string(), s5));
        for (fam, nd0) in shapes {
            for mirrored in [false, true] {
                let nd: Vec<u8> = if mirrored { nd0.iter().rev().cloned().collect() } else { nd0.clone() };
                let name = format!("needle only: {fam}{}", if mirrored { " (mirrored)" } else { "" });
                for (op, pf) in [("build_forward", "auto"), ("build_forward", "none"), ("build_reverse", "auto")] {
                    let pfc = if pf == "auto" { Prefilter::Auto } else { Prefilter::None };
                    hook::start(&[]);
                    if op == "build_forward" {
                        let _fw = FinderBuilder::new().prefilter(pfc).build_forward(&nd);
                    } else {
                        let _rv = FinderBuilder::new().build_reverse(&nd);
                    }
                    let (_, t) = hook::stop();
                    let rec = json!({"k": "cost", "family": name, "op": op, "prefilter": pf, "force": force, "nlen": nd.len(), "hlen": 0, "ticks": ticks_json(&t), "result": 0});
                    writeln!(f, "{}", rec).unwrap();
                    nrec += 1;
                }
            }
        }
    }
    f.flush().unwrap();
    nrec
}
