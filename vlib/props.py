"""Per-property recipes. Each recipe: TLC exhaustive runs (P/L-layer invariants)
-> REPLAY vectors -> real code (S->I); recorder -> ndjson traces -> TLC
validators (I->S); verdict classes -> VIOLATION lines; evidence."""
import json
import os
import re
import subprocess
import time

from . import common as C
from .common import Ctx, ToolError, log, parallel, run_tlc

GEN_INV = ["ResultIsOracle", "Safe", "NoBad", "Coverage", "Linear", "EmitReplay"]
SWAR_INV = ["ResultIsOracle", "Safe", "NoBad", "Linear", "EmitReplay"]

FIND_ARMS = {"h_hit", "h_miss", "l_hit", "l_miss", "l_exit", "v_hit", "v_miss", "v_exit", "t_hit", "t_miss", "t_none"}
COUNT_ARMS = {"c_head", "c_loop", "c_vec", "c_tail", "c_notail", "l_exit", "v_exit"}
SWAR_ARMS = {"empty", "short", "first_hit", "le_loop", "first_miss", "loop_break", "loop_cont", "loop_exit", "tail_bytes"}


def generic_shards(ctx, ops):
    """(tag, module, constants, invariants, workers) for the byte-search models."""
    q = ctx.quick
    ops = set(ops)
    S = []

    def g(tag, vb, minlen, maxlen, dense, nns, bases, fams, workers=2):
        S.append((tag, "MC_GenericMemchr",
                  dict(VB=vb, MinLen=minlen, MaxLen=maxlen, DenseMax=dense, Ops=ops, NNs=set(nns), Bases=set(bases),
                       Families=set(fams), Emit=True), GEN_INV, workers))

    # scaled widths: the whole loop structure (head, >= 2 unrolled iterations, vector loop, tail)
    g("g2", 2, 2, 24 if q else 30, 12 if q else 14, [1, 2], range(2), ["sparse", "holes", "dense"])
    for nn in (1, 2):
        g("g4n%d" % nn, 4, 4, 40 if q else 56, 10 if q else 13, [nn], range(4), ["sparse", "holes", "dense"])
    g("g8", 8, 8, 44 if q else 64, 8, [1, 2], range(8), ["sparse", "holes"] if not q else ["sparse"])
    g("g8s", 8, 45 if q else 65, 112, 8, [1, 2], range(8), ["single"])
    # real widths: exhaustive slices
    g("g16", 16, 16, 100 if q else 176, 15, [1, 2], [0, 1, 7, 8, 15] if q else range(16), ["single"])
    g("g32", 32, 32, 160 if q else 330, 31, [1, 2], [0, 1, 31] if q else [0, 1, 2, 15, 16, 17, 30, 31], ["single"])
    if not q:
        g("g16p", 16, 16, 84, 15, [1], [0, 3, 15], ["sparse"])
    # the bit-level mask formulas of vector.rs (sensible and NEON) implement the lane-set operations the L-models use
    S.append(("vecops", "MC_VecOps", dict(LANES=6 if q else 7), [], 2))
    return S


def swar_shards(ctx, ops):
    q = ctx.quick
    ops = set(ops)
    S = []
    for wb, mx, dn in ((8, 28 if q else 44, 10 if q else 12), (4, 20 if q else 28, 10), (2, 12, 10)):
        S.append(("s%d" % wb, "MC_Swar", dict(WB=wb, MaxLen=mx, DenseMax=dn, Ops=ops, NNs={1, 2},
                                              Families={"sparse", "holes", "dense"}, Emit=True), SWAR_INV, 2))
    return S


def run_shards(ctx, shards, timeout=1500):
    jobs = []
    res = {}

    def mk(tag, module, consts, invs, workers):
        def job():
            vec = os.path.join(ctx.dir, "vec_%s.ndjson" % tag)
            r = run_tlc(ctx, module, consts, invs, tag, emit_to=vec, workers=workers, timeout=timeout)
            res[tag] = r
            log("[tlc] %s %s: %d distinct states, %d vectors, %.1fs" % (module, tag, r["distinct_states"], r["vectors"], r["seconds"]))
            return r
        return job

    for s in shards:
        jobs.append(mk(*s))
    parallel(jobs, max_workers=max(2, C.NCPU // 2))
    return res


def byte_search(ctx, ops, verdict_classes):
    """Shared machinery of C01 (find), C02 (rfind), C07 (count)."""
    binp = C.build_harness()
    gs = generic_shards(ctx, ops)
    ss = swar_shards(ctx, ops)
    res = run_shards(ctx, gs + ss)
    gvec = C.cat_files([res[s[0]]["vec_path"] for s in gs if s[1] != "MC_VecOps"], os.path.join(ctx.dir, "generic.ndjson"))
    svec = C.cat_files([res[s[0]]["vec_path"] for s in ss], os.path.join(ctx.dir, "swar.ndjson"))
    n1, nt1 = C.collect_arms(ctx, "GenericMemchr", gvec)
    n2, nt2 = C.collect_arms(ctx, "Swar", svec)
    need = set()
    if set(ops) & {"find", "rfind"}:
        need |= FIND_ARMS
    if "count" in ops:
        need |= COUNT_ARMS
    C.require_arms(ctx, "GenericMemchr", need)
    C.require_arms(ctx, "Swar", SWAR_ARMS if set(ops) & {"find", "rfind"} else {"count_bytes"})
    ctx.traces += n1 + n2
    ctx.nontrivial += nt1 + nt2
    v, s = (2, 3) if ctx.quick else (4, 6)
    replay_cmd(ctx, binp, "replay-generic", gvec, "generic", verdict_classes, extra=["--variants", v, "--stretches", s])
    replay_cmd(ctx, binp, "replay-generic", svec, "swar", verdict_classes, extra=["--no-scaled", "--variants", v, "--stretches", s])
    # the dispatcher's other branches: same vectors, top-level API only
    for force in ("sse2", "fallback"):
        for tag, vec in (("generic", gvec), ("swar", svec)):
            replay_cmd(ctx, binp, "replay-generic", vec, "%s@%s" % (tag, force), verdict_classes,
                       extra=["--no-scaled", "--only-top", "--variants", 1, "--stretches", 3], env={"MEMCHR_VERIF_FORCE": force})
    # routing of the arch wrappers / dispatcher (ArchMemchr F-spec): conformance of the vector widths used at every length
    ar = run_shards(ctx, [("arch", "MC_ArchMemchr", dict(MaxLen=100 if ctx.quick else 200, Emit=True), ["EmitReplay"], 2)])
    for force in ("avx2", "sse2", "fallback"):
        replay_cmd(ctx, binp, "replay-route", ar["arch"]["vec_path"], "route@" + force, verdict_classes, extra=["--force", force], env={"MEMCHR_VERIF_FORCE": force})
    wb = simd128_bin(ctx)
    if wb:
        replay_cmd(ctx, wb, "replay-generic", gvec, "generic@simd128", verdict_classes, extra=["--no-scaled", "--variants", 1, "--stretches", 3])
    executed = []
    miri_vehicles(ctx, [gvec, svec], verdict_classes, executed)
    ctx.counters_note = executed
    ctx.evaluations = sum(v for k, v in ctx.counters.items() if k.endswith("real_exec") or k.endswith("scaled_exec") or k.endswith("miri_exec"))


RULE_BYTES = ("TLC enumerates every (length, start alignment, match placement) of the L-models within the constants listed under tlc_runs; "
              "each terminated behaviour is one REPLAY vector executed on the real generic code at the model's width (hook facades), on every "
              "public backend and on the top-level API under each forced dispatch outcome, with value tables and affine stretches; "
              "a vector is non-trivial when its expected result is a match at offset > 0 / a count > 0; distinct = distinct vectors")


ITER_INV = ["WindowOK", "OnlyMatches", "FrontAscending", "BackDescending", "NoDuplicate", "WindowIsRest",
            "ExactlyAllWhenDrained", "NoneForever", "HintBrackets", "CountIsRemaining", "EmitReplay"]


def iter_part(ctx, verdict_classes):
    """MemchrIter: every match set x every interleaving of next/next_back, replayed on every iterator."""
    binp = C.build_harness()
    top = 9 if ctx.quick else 10
    shards = [("it0", "MemchrIter", dict(MinLen=0, MaxLen=6, ExtraNones=3, Emit=True), ITER_INV, 2)]
    for n in range(7, top + 1):
        shards.append(("it%d" % n, "MemchrIter", dict(MinLen=n, MaxLen=n, ExtraNones=3 if n < 10 else 2, Emit=True), ITER_INV, 4))
    res = run_shards(ctx, shards, timeout=3000)
    vec = C.cat_files([res[s[0]]["vec_path"] for s in shards], os.path.join(ctx.dir, "iter.ndjson"))
    n = sum(res[s[0]]["vectors"] for s in shards)
    ctx.traces += n
    ctx.nontrivial += n  # every behaviour is a distinct (match set, call order); all but the empty match sets are non-trivial
    v, s = (2, 3) if ctx.quick else (3, 5)
    replay_cmd(ctx, binp, "replay-iter", vec, "iter", verdict_classes, extra=["--variants", v, "--stretches", s])
    for force in ("sse2", "fallback"):
        replay_cmd(ctx, binp, "replay-iter", vec, "iter@%s" % force, verdict_classes, extra=["--only-top", "--variants", 1, "--stretches", 3], env={"MEMCHR_VERIF_FORCE": force})
    wb = simd128_bin(ctx)
    if wb:
        replay_cmd(ctx, wb, "replay-iter", vec, "iter@simd128", verdict_classes, extra=["--variants", 1, "--stretches", 2])
    ctx.evaluations += sum(v for k, v in ctx.counters.items() if k.endswith("iter_calls_exec"))


RULE_ITER = ("TLC enumerates every match set of every haystack length within the bounds and, for each, every interleaving of next/next_back "
             "until three None results were observed (history kept as a state variable so each call order is a distinct behaviour); all "
             "iterator invariants are evaluated in every prefix; each complete behaviour is replayed on Memchr/Memchr2/Memchr3 and One/Two/Three::iter "
             "of every backend (plus forced dispatch), identity and stretched, with size_hint, count() of a clone and the future of a mid-iteration clone compared")


def tlaps_supplement(ctx, module="IterWindow", theorems=("InitInv", "NextInv", "Safety", "FreshYield", "DrainedMeansAll")):
    """Unbounded supplement (optional, never fails a check): a TLAPS proof in spec/proofs -- IterWindow: the iterator window
    invariant for arbitrary haystack length and match set; GenericFwdUnbounded: loads in bounds and first-match correctness of
    the generic forward scan for arbitrary vector width, unroll factor, length, alignment and match set."""
    try:
        p = subprocess.run(["timeout", "300", "tlapm", "--threads", "8", "--cleanfp", module + ".tla"], cwd=os.path.join(C.SPEC, "proofs"),
                           stdout=subprocess.PIPE, stderr=subprocess.STDOUT, text=True)
        import re as _re
        m = _re.search(r"All (\d+) obligations proved", p.stdout)
        if m:
            return {"tlaps": {"module": "spec/proofs/%s.tla" % module, "obligations": int(m.group(1)), "discharged": int(m.group(1)),
                              "theorems": list(theorems)}}
        ctx.vehicles_skipped.append({"vehicle": "tlaps " + module, "reason": p.stdout[-300:]})
    except Exception as e:
        ctx.vehicles_skipped.append({"vehicle": "tlaps " + module, "reason": repr(e)})
    return {}


def c06(ctx):
    iter_part(ctx, {"result", "panic"})
    iter_traces(ctx, 150 if ctx.quick else 1500, ops_filter={"next", "next_back"})
    extra = tlaps_supplement(ctx)
    return C.finish(ctx, "model_checking", RULE_ITER, extra_cov=extra)


def miri_vehicles(ctx, vecs, classes, executed, targets=None):
    """Optional vehicles (never fail a check): foreign targets under Miri. Implemented in vlib/miri.py."""
    try:
        from . import miri
        miri.run(ctx, vecs, classes, executed, targets=targets)
    except ToolError as e:
        ctx.vehicles_skipped.append({"vehicle": "miri", "reason": str(e)[:300]})
    except Exception as e:  # an infrastructure problem in an optional vehicle must never fail a check
        ctx.vehicles_skipped.append({"vehicle": "miri", "reason": "driver error: %r" % (e,)})


def simd128_bin(ctx):
    """Optional vehicle: the harness built against the cfg-rewritten copy in which the real wasm32 simd128 code runs natively."""
    try:
        return C.build_simd128()
    except ToolError as e:
        ctx.vehicles_skipped.append({"vehicle": "simd128", "reason": str(e)[:300]})
        return None

SIGNAL_RC = {132: "SIGILL", 134: "SIGABRT", 135: "SIGBUS", 136: "SIGFPE", 139: "SIGSEGV", -4: "SIGILL", -6: "SIGABRT", -7: "SIGBUS", -8: "SIGFPE", -11: "SIGSEGV"}


def harness_died(ctx, binp, args, tag, rc, err, classes, env=None):
    """The harness process itself died while driving the code under test. A Rust panic whose location lies inside the
    crate under test (the harness's own panics carry harness-relative paths), or a fatal signal, is an observation about
    the code under test -- data, not a tool error: the same seeded inputs run cleanly on a tree where the property holds.
    Anything else (usage error, harness bug, missing file) stays a tool error (exit 2)."""
    err = err or ""
    locs = re.findall(r"panicked at ([^\s:]+):(\d+)", err)
    root = os.path.abspath(C.REPO) + os.sep
    copy = os.path.join(os.path.abspath(C.WORK), "simd128", "crate") + os.sep     # the cfg-rewritten copy of the crate (simd128 vehicle)
    in_crate = [l for l in locs if os.path.abspath(l[0]).startswith(root) or os.path.abspath(l[0]).startswith(copy)]
    if in_crate and not os.path.abspath(in_crate[0][0]).startswith(root):
        root = copy
    sig = SIGNAL_RC.get(rc)
    if rc == 101 and in_crate:
        kinds = {"panic"}
        msg = [l for l in err.splitlines() if l.strip() and not l.startswith("note:")]
        what = "harness `%s` died of a panic raised inside the crate at %s:%s: %s" % (args[0], os.path.relpath(in_crate[0][0], root), in_crate[0][1], " | ".join(msg[-2:])[:300])
    elif sig:
        kinds = {"panic", "oob", "misaligned"}
        what = "harness `%s` was killed by %s while driving the crate: %s" % (args[0], sig, " | ".join(err.splitlines()[-2:])[:300])
    else:
        raise ToolError("harness %s failed rc=%s: %s" % (args[0], rc, err[-2000:]))
    obj = {"harness_args": [str(a) for a in args], "env": env or {}, "seed": ctx.seed, "rc": rc, "stderr_tail": err[-1500:]}
    if kinds & set(classes):
        ctx.violation("died:%s:%s" % (tag, what[:80]), what, obj)
    else:
        ctx.note("%s (decided by another property's check)" % what)


def replay_cmd(ctx, binp, cmd, vec, tag, classes, extra=(), env=None):
    args = [cmd, "--in", vec, "--threads", C.NCPU, "--tmp", os.path.join(ctx.dir, "iso_" + tag)] + list(extra)
    rep, rc, err = C.run_harness(ctx, binp, args, tag, env_extra=env)
    if rep is None:
        harness_died(ctx, binp, args, tag, rc, err, classes, env)
        return None
    C.absorb_report(ctx, rep, classes, tag)
    return rep


def sum_exec(ctx, suffixes):
    return sum(v for k, v in ctx.counters.items() if any(k.endswith(x) for x in suffixes))


IE_INV = ["ResultIsEquality", "WrappersOK", "Safe", "Linear", "EmitReplay"]
IE_ARMS = {"w4_eq", "w4_ne", "w2_eq", "w2_ne", "w1_eq", "w1_ne", "w_none"}


def c18(ctx):
    binp = C.build_harness()
    shards = [("ie", "MC_IsEqual", dict(MaxLen=7 if ctx.quick else 8, LongLen=48 if ctx.quick else 72, Emit=True), IE_INV, 4)]
    res = run_shards(ctx, shards)
    vec = res["ie"]["vec_path"]
    n, _ = C.collect_arms(ctx, "IsEqual", vec)
    C.require_arms(ctx, "IsEqual", IE_ARMS)
    ctx.traces += n
    ctx.nontrivial += n
    replay_cmd(ctx, binp, "replay-iseq", vec, "iseq", {"result", "panic", "oob"})
    lib_traces(ctx, "sub", "eq,prefix,suffix", "api", 1500 if ctx.quick else 12000, "cmp", forces=("avx2",))
    ctx.evaluations += sum_exec(ctx, ["iseq_exec"])
    extra = tlaps_supplement(ctx, "IsEqualUnbounded", ("InitInv", "NextInv", "Safety"))
    return C.finish(ctx, "model_checking",
                    "TLC enumerates all pairs of binary sequences with lengths 0..MaxLen (every tail residue, every content) and all equal-length pairs up to LongLen "
                    "differing at <= 2 positions; the L-model of is_equal_raw is checked against sequence equality and the wrappers against starts_with/ends_with; "
                    "every pair is replayed on is_equal/is_equal_raw/is_prefix/is_suffix with value tables, 8x8 relative alignments and both operands abutting PROT_NONE pages; distinct = distinct pairs", extra_cov=extra)


SUBC = dict(HASHBITS=4, MASKBITS=4, PAIRCAP=4, MASKKIND="sensible", MIN_SKIPS=2, MIN_SKIP_BYTES=2, CTRMAX=1000000, MulSaturates=True, MODK=2,
            RKFAST=4, ONESHOT=8, MAXP=3, VBS=2, MAXRANK=1)
MM_INV = ["FindIsLeftmost", "RFindIsRightmost", "IterIsGreedy", "RevIterIsGreedy", "EmptyNeedleEveryOffset", "NoPanic",
          "LinearFind", "LinearIter", "EmitReplay"]
SO_INV = ["Mirror", "GreedyHeads", "LiftLemma", "TruncLemma", "ScanLemma", "EmitReplay"]
TW_INV = ["FwdOK", "RevOK", "NoUnderflow", "FwdNoSkip", "RevNoSkip", "PrepLinear", "SearchLinear", "EmitReplay"]
B1_INV = ["RabinKarpFwdOK", "RabinKarpRevOK", "ShiftOrOK", "RKCost", "EmitReplay"]
PP_INV = ["FindOK", "PrefilterOK", "PortableOK", "Safe", "NoBad", "Linear", "EmitReplay"]
PAIR_INV = ["SelectionValid", "RarestFirst", "IndicesExact", "EmitReplay"]


def sub(keys, **kw):
    d = {k: SUBC[k] for k in keys}
    d.update(kw)
    return d


K_PAIR = ["HASHBITS", "MASKBITS", "PAIRCAP"]
K_PP = K_PAIR + ["MASKKIND"]
K_TW = K_PP + ["MIN_SKIPS", "MIN_SKIP_BYTES", "CTRMAX", "MulSaturates", "MODK"]
K_MM = K_TW + ["RKFAST", "ONESHOT", "MAXP", "VBS", "MAXRANK"]


def memmem_shards(ctx, parts, maxn, maxh, avails=("avx2", "vec", "none"), prefs=("auto", "none"), ranks=(0, 2), alpha=(0, 1), tagp="mm", extra=None):
    """MC_Memmem sharded by CPU-feature outcome and needle-length class."""
    S = []
    for a in avails:
        for (lo, hi) in ((0, min(3, maxn)), (4, maxn)):
            if lo > hi:
                continue
            c = sub(K_MM, Alpha=set(alpha), MinN=lo, MaxN=hi, MaxH=maxh, Avails={a}, Prefs=set(prefs), Ranks=set(ranks), Parts=set(parts), Emit=False)
            if extra:
                c.update(extra)
            S.append(("%s_%s_%d" % (tagp, a, lo), "MC_Memmem", c, MM_INV, 4))
    return S


def oracle_shards(ctx, big=False):
    """P-layer vectors for S->I plus the oracle/lifting lemmas."""
    q = ctx.quick
    S = [("so_lift", "MC_SubOracle", dict(Alpha={0, 1}, MinN=0, MaxN=4, MaxH=7 if q else 8, Scales={2, 3}, CheckLift=True, Emit=False, Hole=False, NearMiss=False), SO_INV, 4)]
    mxn, mxh = (5, 9) if q else (6, 11)
    for lo, hi in ((0, 3), (4, 4), (5, 5), (6, 6)):
        if lo > mxn:
            continue
        S.append(("so_b%d" % lo, "MC_SubOracle", dict(Alpha={0, 1}, MinN=lo, MaxN=min(hi, mxn), MaxH=mxh, Scales={2}, CheckLift=False, Emit=True, Hole=False, NearMiss=False), SO_INV, 3))
    S.append(("so_t", "MC_SubOracle", dict(Alpha={0, 1, 2}, MinN=1, MaxN=3, MaxH=6 if q else 7, Scales={2}, CheckLift=False, Emit=True, Hole=False, NearMiss=False), SO_INV, 3))
    # binary needles, binary haystacks with one byte from outside the needle's alphabet (byte-set skips, resets of remembered state)
    S.append(("so_h", "MC_SubOracle", dict(Alpha={0, 1}, MinN=2, MaxN=3 if q else 4, MaxH=9 if q else 10, Scales={2}, CheckLift=False, Emit=True, Hole=True, NearMiss=False), SO_INV, 3))
    return S


def nearmiss_shards(ctx, lens):
    """Periodic needles against haystacks made of their own one-byte-off near matches (see MC_SubOracle.NearMissInit)."""
    return [("so_nm%d" % L, "MC_SubOracle", dict(Alpha={0, 1, 2}, MinN=L, MaxN=L, MaxH=0, Scales={2}, CheckLift=False, Emit=True, Hole=False, NearMiss=True), SO_INV, 6)
            for L in lens]


def vec_of(ctx, res, shards, name):
    paths = [res[s[0]]["vec_path"] for s in shards if res[s[0]]["vectors"] > 0]
    out = C.cat_files(paths, os.path.join(ctx.dir, name))
    n = sum(res[s[0]]["vectors"] for s in shards)
    return out, n


def mm_replay(ctx, binp, vec, groups, classes, lifts, forces=("avx2", "sse2", "fallback"), tag="mm"):
    for f in forces:
        replay_cmd(ctx, binp, "replay-mm", vec, "%s@%s" % (tag, f), classes, extra=["--lifts", lifts, "--groups", groups, "--force", f])


RULE_SUB = ("MC_Memmem: TLC evaluates the loop-level models of the meta searcher (Two-Way with the adaptive prefilter threaded through, packed pair, "
            "Rabin-Karp, routing) for every needle x haystack x CPU-feature outcome x prefilter setting x ranker within the listed (scaled) constants against "
            "the Bytes oracles; MC_SubOracle emits the oracle values of every (needle, haystack) pair within its bounds and checks the lifting lemma; each "
            "vector is replayed 1:1 and lifted by block substitution/padding (needles > 32 bytes, haystacks > 64) on the public API under each forced "
            "dispatch level; non-trivial = the needle occurs in the haystack; distinct = distinct (needle, haystack) vectors")


def substring(ctx, parts, groups, classes, mm_bounds, lifts=None):
    binp = C.build_harness()
    q = ctx.quick
    maxn, maxh = mm_bounds
    ms = memmem_shards(ctx, parts, maxn, maxh)
    os_ = oracle_shards(ctx)
    nm = [] if q else nearmiss_shards(ctx, [6, 7])
    res = run_shards(ctx, ms + os_ + nm, timeout=3000)
    vec, n = vec_of(ctx, res, os_, "mm.ndjson")
    ctx.traces += n
    ctx.nontrivial += sum(1 for v in C.read_vectors(vec) if v["find"] >= 0)
    mm_replay(ctx, binp, vec, groups, classes, lifts or (6 if q else 14))
    if nm:
        nvec, nn_ = vec_of(ctx, res, nm, "nearmiss.ndjson")
        ctx.traces += nn_
        mm_replay(ctx, binp, nvec, groups, classes, 10, forces=("avx2", "fallback"), tag="nearmiss")
    # optional vehicles for the architecture-specific substring code (searcher / prefilter selection, minimum lengths,
    # packed-pair wrappers): the simd128 copy natively on all vectors, NEON (quick) + big-endian + 32-bit under Miri on a
    # stratified sample with boundary truncations
    wb = simd128_bin(ctx)
    if wb:
        replay_cmd(ctx, wb, "replay-mm", vec, "mm@simd128", classes, extra=["--lifts", 7 if q else 10, "--groups", groups, "--force", "avx2"])
    miri_vehicles(ctx, [vec] + ([nvec] if nm else []), classes, [])
    ctx.evaluations += sum_exec(ctx, ["mm_exec", "prefilter_exec", "miri_exec"])


def c03(ctx):
    substring(ctx, ["find"], "find", {"result", "panic"}, (5, 8) if ctx.quick else (6, 9))
    lib_traces(ctx, "sub", "find", "api", 1200 if ctx.quick else 10000, "sub")
    return C.finish(ctx, "model_checking", RULE_SUB)


def c04(ctx):
    substring(ctx, ["rfind"], "rfind", {"result", "panic"}, (5, 9) if ctx.quick else (6, 11))
    lib_traces(ctx, "sub", "rfind", "api", 1200 if ctx.quick else 10000, "sub")
    return C.finish(ctx, "model_checking", RULE_SUB)


def c08(ctx):
    substring(ctx, ["iter", "riter"], "iter,riter", {"result", "panic"}, (5, 7) if ctx.quick else (5, 9))
    lib_traces(ctx, "sub", "fwd,rev", "api", 800 if ctx.quick else 8000, "sub")
    extra = tlaps_supplement(ctx, "FindIterUnbounded", ("StepPos", "InitInv", "NextInv", "Safety"))
    e2 = tlaps_supplement(ctx, "FindRevIterUnbounded", ("InitInv", "NextInv", "Safety"))
    if "tlaps" in e2:
        extra["tlaps_rev"] = e2["tlaps"]
    return C.finish(ctx, "model_checking", RULE_SUB, extra_cov=extra)


def c10(ctx):
    binp = C.build_harness()
    q = ctx.quick
    # rankers on a 3-letter alphabet (quick: 8 incl. constant and non-injective; thorough: all 27), both prefilter settings, every CPU-feature outcome
    if q:
        ms = [("mm3_%s" % a, "MC_Memmem", sub(K_MM, Alpha={0, 1, 2}, MinN=4, MaxN=4, MaxH=4, Avails={a}, Prefs={"auto", "none"}, Ranks={0, 2},
                                              Parts={"find", "iter"}, Emit=False), MM_INV, 4) for a in ("vec", "none")]
    else:
        ms = memmem_shards(ctx, ["find", "iter"], 4, 5, ranks=(0, 1, 2), alpha=(0, 1, 2), tagp="mm3")
    ms += memmem_shards(ctx, ["find", "iter"], 5, 7 if q else 9, ranks=(0, 2), tagp="mm2")
    os_ = oracle_shards(ctx)
    nm = nearmiss_shards(ctx, [7] if q else [6, 7, 8])
    res = run_shards(ctx, ms + os_ + nm, timeout=3000)
    vec, n = vec_of(ctx, res, os_, "mm.ndjson")
    nvec, nn_ = vec_of(ctx, res, nm, "nearmiss.ndjson")
    ctx.traces += n + nn_
    ctx.nontrivial += sum(1 for v in C.read_vectors(vec) if v["find"] >= 0) + nn_
    mm_replay(ctx, binp, vec, "cfg", {"result", "panic"}, 6 if q else 12)
    # near-miss family: lifts beyond the pad-only ones so that the needles exceed 32 bytes (Two-Way + prefilter)
    mm_replay(ctx, binp, nvec, "cfg", {"result", "panic"}, 8 if q else 12, forces=("avx2", "fallback"), tag="nearmiss")
    # I->S at real constants: structured / tail / stray families under the default and three other rankers, prefilter on and off
    lib_traces(ctx, "sub", "find,fwd", "api", 1000 if q else 8000, "sub")
    ctx.evaluations += sum_exec(ctx, ["mm_exec"])
    return C.finish(ctx, "model_checking", RULE_SUB + "; C10: the ranker is a nondeterministic function in the model (all functions Alpha -> Ranks), and the replay runs a ranker table "
                    "(constant 0/255, identity, reversed, seeded random, needle bytes commonest/rarest) x Prefilter::{None,Auto}")


def blocks_shards(ctx):
    q = ctx.quick
    S = []
    for lo, hi in ((1, 4), (5, 5)) + (() if q else ((6, 6),)):
        S.append(("tw%d" % lo, "MC_TwoWay", sub(K_TW, Alpha={0, 1}, MinN=lo, MaxN=hi, MaxH=9 if q else 10, Emit=True), TW_INV, 4))
    S.append(("tw3", "MC_TwoWay", sub(K_TW, MODK=2, Alpha={0, 1, 2}, MinN=1, MaxN=3 if q else 4, MaxH=6 if q else 7, Emit=True), TW_INV, 4))
    S.append(("tw3m", "MC_TwoWay", sub(K_TW, MODK=3, Alpha={0, 1, 2}, MinN=2, MaxN=3, MaxH=6 if q else 7, Emit=True), TW_INV, 4))
    S.append(("b1", "MC_SubBlocks1", sub(["HASHBITS", "MASKBITS"], Alpha={0, 1}, MaxN=5, MaxH=9 if q else 10, Emit=False), B1_INV, 4))
    S.append(("b1h", "MC_SubBlocks1", dict(HASHBITS=2, MASKBITS=3, Alpha={0, 1, 2}, MaxN=3, MaxH=6, Emit=False), B1_INV, 3))
    return S


def pp_shards(ctx, emit=True, small=False):
    q = ctx.quick
    S = []
    d = 2 if (small and q) else 0
    for vb, mk, mn, mx, ex, alpha in ((2, "sensible", 2, 4 if not d else 3, (5 if q else 6) - d, {0, 1}), (4, "sensible", 2, 3, (6 if q else 8) - d, {0, 1}),
                                      (2, "neon", 2, 3, 5 - d, {0, 1}), (4, "neon", 2, 3, (6 if q else 8) - d, {0, 1}), (2, "sensible", 2, 3, (3 if q else 4) - (1 if d else 0), {0, 1, 2})):
        S.append(("pp%d%s%d" % (vb, mk[0], len(alpha)), "MC_PackedPair",
                  sub(K_PAIR, MASKKIND=mk, VB=vb, Alpha=alpha, MinN=mn, MaxN=mx, Extra=ex, Emit=emit and mk == "sensible"), PP_INV, 4))
    S.append(("vecops", "MC_VecOps", dict(LANES=6 if q else 7), [], 2))
    return S


# "tail_none" (cur == end after the main loop) is unreachable: min_haystack_len > VB, so the `if cur < end` of the code is always taken
TW_ARMS = {"f_exit", "f_pre_off", "f_byteset_skip", "f_s_right_mismatch", "f_s_match", "f_s_period_shift", "f_l_right_mismatch", "f_l_match", "f_l_shift",
           "r_exit", "r_byteset_skip", "r_s_left_mismatch", "r_s_match", "r_s_period_shift", "r_l_left_mismatch", "r_l_match", "r_l_shift"}
PP_ARMS = {"panic", "loop_hit", "loop_miss", "tail_short", "tail_hit", "tail_miss", "p_panic", "p_loop_hit", "p_loop_miss", "p_tail_hit", "p_tail_miss"}


def c12(ctx):
    binp = C.build_harness()
    bs = blocks_shards(ctx)
    ps = pp_shards(ctx)
    os_ = oracle_shards(ctx)
    res = run_shards(ctx, bs + ps + os_, timeout=3000)
    vec, n = vec_of(ctx, res, os_, "mm.ndjson")
    pvec, pn = vec_of(ctx, res, ps, "pp.ndjson")
    tvec, tn = vec_of(ctx, res, [b for b in bs if b[1] == "MC_TwoWay"], "tw.ndjson")
    C.collect_arms(ctx, "PackedPair", pvec)
    C.require_arms(ctx, "PackedPair", PP_ARMS)
    C.collect_arms(ctx, "TwoWay", tvec)
    C.require_arms(ctx, "TwoWay", TW_ARMS)
    ctx.traces += n + pn + tn
    ctx.nontrivial += sum(1 for v in C.read_vectors(vec) if v["find"] >= 0)
    mm_replay(ctx, binp, vec, "blocks", {"result", "panic"}, 5 if ctx.quick else 10, forces=("avx2",))
    replay_cmd(ctx, binp, "replay-pp", pvec, "pp", {"result", "panic"})
    # Two-Way: exact replay incl. conformance of preprocessing (Debug output), preprocessing steps and search steps with the L-model
    replay_cmd(ctx, binp, "replay-tw", tvec, "tw", {"result", "panic"})
    lib_traces(ctx, "sub", "find,rfind", "block", 1200 if ctx.quick else 10000, "blocks", forces=("avx2",))
    ctx.evaluations += sum_exec(ctx, ["mm_exec", "pp_scaled_exec", "pp_real_exec", "prefilter_exec"])
    extra = tlaps_supplement(ctx, "PackedPairFindUnbounded", ("Basic", "OccInRange", "InitInv", "NextInv", "Safety"))
    return C.finish(ctx, "model_checking",
                    "MC_TwoWay / MC_SubBlocks1 / MC_PackedPair: TLC steps the loop-level models of Two-Way (forward/reverse, small/large period, every outer iteration), "
                    "Rabin-Karp (forward/reverse, scaled hash width), Shift-Or (scaled mask) and the generic packed-pair find over ALL needles x haystacks over 2- and "
                    "3-letter alphabets within the bounds; every pair is replayed (1:1 and lifted) on twoway/rabinkarp/shiftor/packedpair finders; packed-pair vectors "
                    "are replayed on the real generic code at the model width (load sequence must agree) and padded on SSE2/AVX2", extra_cov=extra)


def c11(ctx):
    binp = C.build_harness()
    ps = pp_shards(ctx)
    os_ = oracle_shards(ctx)
    res = run_shards(ctx, ps + os_, timeout=3000)
    vec, n = vec_of(ctx, res, os_, "mm.ndjson")
    pvec, pn = vec_of(ctx, res, ps, "pp.ndjson")
    C.collect_arms(ctx, "PackedPair", pvec)
    C.require_arms(ctx, "PackedPair", PP_ARMS)
    ctx.traces += n + pn
    ctx.nontrivial += sum(1 for v in C.read_vectors(pvec) if v["find"] >= 0)
    replay_cmd(ctx, binp, "replay-pp", pvec, "pp", {"result", "panic"})
    # "find" group: the private short-haystack fallback of the meta searcher's prefilter (searcher.rs) is reachable only
    # through searches with needles > 32 bytes (lifted vectors, boundary truncations, the recorder's tail family)
    mm_replay(ctx, binp, vec, "blocks,find", {"result", "panic"}, 7 if ctx.quick else 10, forces=("avx2", "sse2"))
    wb = simd128_bin(ctx)
    if wb:
        replay_cmd(ctx, wb, "replay-mm", vec, "mm@simd128", {"result", "panic"}, extra=["--lifts", 7, "--groups", "blocks,find", "--force", "avx2"])
    miri_vehicles(ctx, [vec], {"result", "panic"}, [])
    lib_traces(ctx, "sub", "find", "api", 800 if ctx.quick else 8000, "sub", forces=("avx2", "sse2"))
    # I->S at real constants: pair offsets up to 254, occurrences in the last overlapping chunk; TLC checks the C11 predicate
    lib_traces(ctx, "pre", "pre", "all", 1500 if ctx.quick else 15000, "pre", forces=("avx2",))
    ctx.evaluations += sum_exec(ctx, ["pp_scaled_exec", "pp_real_exec", "prefilter_exec", "miri_exec"])
    extra = tlaps_supplement(ctx, "PackedPairPrefilterUnbounded", ("Basic", "OccInRange", "InitInv", "NextInv", "Safety"))
    return C.finish(ctx, "model_checking",
                    "MC_PackedPair: all needles x every ordered pair of distinct offsets x all haystack contents for every length 0..minLen+Extra, both mask kinds "
                    "(the NEON under-masking is modelled as the code has it); invariants prefilter <= FindSub, None => absent, candidate has both pair bytes, "
                    "prefilter = its F-spec, loads in bounds; replayed on the real generic code at VB=2,4 and padded on SSE2/AVX2/portable finders", extra_cov=extra)


def c19(ctx):
    binp = C.build_harness()
    q = ctx.quick
    shards = [("pair3", "MC_Pair", sub(K_PAIR, Alpha={0, 1, 2}, MaxN=6 if q else 7, Ranks={0, 1, 2}, LongLens=set(), Emit=True), PAIR_INV, 4),
              ("pair2", "MC_Pair", sub(K_PAIR, PAIRCAP=6, Alpha={0, 1}, MaxN=8 if q else 10, Ranks={0, 1}, LongLens=set(), Emit=True), PAIR_INV, 4),
              # the real cap (255): long needles with the rare byte placed on both sides of the cap
              ("pairL", "MC_Pair", sub(K_PAIR, PAIRCAP=255, Alpha={0, 1}, MaxN=0, Ranks={0, 1, 2}, LongLens={253, 254, 255, 256, 257, 300} | (set() if q else {258, 400, 600}), Emit=True), PAIR_INV, 4)]
    ps = pp_shards(ctx, small=True)
    res = run_shards(ctx, shards + ps)
    vec, n = vec_of(ctx, res, shards, "pair.ndjson")
    pvec, pn = vec_of(ctx, res, ps, "pp.ndjson")
    ctx.traces += n + pn
    ctx.nontrivial += n
    replay_cmd(ctx, binp, "replay-pair", vec, "pair", {"result", "panic"})
    # finders built from every valid pair report that pair and the documented minimum length
    replay_cmd(ctx, binp, "replay-pp", pvec, "pp", {"pair"})
    # I->S at the real scan cap: recorded needles 0..600 bytes x ranker table, and the whole with_indices matrix for
    # needle lengths {0,1,2,3,254,255,256,600}; TLC (Trace_Pair, PAIRCAP = 255) decides validity and compares with the L-model
    tr = os.path.join(ctx.dir, "pair_trace.ndjson")
    rargs = ["record-pair", "--trace", tr, "--count", 150 if q else 2000]
    rep, rc, err = C.run_harness(ctx, binp, rargs, "rec_pair")
    if rep is None:
        harness_died(ctx, binp, rargs, "rec_pair", rc, err, {"result", "panic", "pair"})
        n_, viol, summ = 0, [], []
    else:
        C.absorb_report(ctx, rep, {"result", "panic", "pair"}, "rec_pair")
        n_, viol, summ = C.validate_trace(ctx, "Trace_Pair", tr, sub(K_PAIR, PAIRCAP=255), "pair_trace", max_records=400, par=8)
    for (pp, tup) in viol:
        recd = C.record_at(pp, tup[1])
        ctx.violation("pairtrace:%s" % tup[2], "recorded %s: %s" % (
            "Pair::with_ranker result is not a valid pair (or the finder reports a different pair)" if tup[2] == "ranker" else "Pair::with_indices acceptance set is wrong",
            {k: (v if k not in ("rank", "n") else "<%d bytes>" % len(v)) for k, v in recd.items()}), {"record": recd})
    ctx.evaluations += n_ + sum_exec(ctx, ["pair_exec", "pp_real_exec", "pp_scaled_exec"])
    extra = tlaps_supplement(ctx, "PairUnbounded", ("LimFacts", "InitInv", "NextInv", "Safety"))
    return C.finish(ctx, "model_checking",
                    "MC_Pair: all needles over a 3-letter alphabet x all 27 rankers (constant, non-injective, adversarial) with the scan transcribed step by step and the "
                    "cap scaled; invariants None <=> |n| < 2, offsets distinct, in range, below the cap, with_indices accepts exactly distinct in-range pairs; every "
                    "behaviour replayed on Pair::with_ranker / with_indices", extra_cov=extra)


OBJ_INV = ["FindPure", "IterGreedy", "CloneGreedy", "EmitReplay"]


def c16(ctx):
    binp = C.build_harness()
    q = ctx.quick
    shards = []
    for nl, mh, dp in ((4, 8, 5 if q else 6), (2, 6, 4 if q else 6), (1, 4, 5), (5, 9 if q else 10, 4 if q else 5)):
        shards.append(("obj%d" % nl, "MC_MemmemObjects", sub(K_MM, Alpha={0, 1}, MinN=nl, MaxN=nl, MaxH=mh, Avails={"avx2", "none"},
                                                             Prefs={"auto"}, Depth=dp, Emit=True), OBJ_INV, 4))
    os_ = oracle_shards(ctx)
    nm = nearmiss_shards(ctx, [6] if q else [6, 7])
    res = run_shards(ctx, shards + os_ + nm, timeout=3000)
    ovec, on = vec_of(ctx, res, shards, "obj.ndjson")
    vec, n = vec_of(ctx, res, os_, "mm.ndjson")
    nvec, nn_ = vec_of(ctx, res, nm, "nearmiss.ndjson")
    ctx.traces += on + n + nn_
    ctx.nontrivial += on
    for f in ("avx2", "sse2", "fallback"):
        replay_cmd(ctx, binp, "replay-obj", ovec, "obj@%s" % f, {"result", "panic"}, extra=["--lifts", 5 if q else 9, "--force", f])
    mm_replay(ctx, binp, vec, "objects", {"result", "panic"}, 4 if q else 8)
    # near-miss family, lifted beyond 32-byte needles: reuse of one finder across haystacks that leave the Two-Way /
    # prefilter machinery in every intermediate state (stale shift, exhausted prefilter) must not change later answers
    mm_replay(ctx, binp, nvec, "objects", {"result", "panic"}, 8 if q else 12, forces=("avx2", "fallback"), tag="nearmiss")
    # I->S at real constants: random operation histories on real objects, folded through the P-layer object machine by TLC
    for force in ("avx2", "fallback"):
        tr = os.path.join(ctx.dir, "objhist_%s.ndjson" % force)
        rargs = ["record-obj", "--trace", tr, "--count", 240 if q else 3000, "--force", force]
        rep, rc, err = C.run_harness(ctx, binp, rargs, "rec_obj_" + force)
        if rep is None:
            harness_died(ctx, binp, rargs, "rec_obj_" + force, rc, err, {"result", "panic"})
            continue
        n_, viol, summ = C.validate_trace(ctx, "Trace_Objects", tr, {}, "objhist_" + force, max_records=20 if q else 250, par=12)
        for (pp, tup) in viol:
            recd = C.record_at(pp, tup[1])
            ctx.violation("objhist:%s:%s" % (force, tup[2]),
                          "recorded object history (%s dispatch): operation %d (%s) returned %s; the object machine (pure function of the needle, iterator = position in the greedy sequence) disagrees" % (
                              force, tup[4], tup[2], recd["ops"][tup[4] - 1]["ret"]), {"record": recd})
        for s_ in summ:
            ctx.evaluations += s_[3]
            ctx.add_counters({"object_history_ops@%s" % force: s_[3]})
    ctx.evaluations += sum_exec(ctx, ["obj_exec", "mm_exec"])
    return C.finish(ctx, "model_checking",
                    "MC_MemmemObjects: action-style spec of a Finder searched over several haystacks in any order, a partially consumed FindIter, its clone, into_owned and the "
                    "death of the needle buffer; TLC visits every operation order up to Depth for every needle and every first haystack with >= 2 matches; invariants: every "
                    "find equals the oracle whatever happened before, iterator and clone yield prefixes of the greedy sequence; each complete behaviour is replayed on real "
                    "objects (1:1 and lifted; the original needle buffer is overwritten and dropped after into_owned); plus fixed reuse/clone/as_ref/into_owned sequences on every oracle vector")


def c17(ctx):
    binp = C.build_harness()
    q = ctx.quick
    os_ = oracle_shards(ctx)
    its = [("it0", "MemchrIter", dict(MinN=0, MinLen=0, MaxLen=7, ExtraNones=2, Emit=True), ITER_INV, 4)]
    its[0][2].pop("MinN")
    res = run_shards(ctx, os_ + its, timeout=3000)
    vec, n = vec_of(ctx, res, os_, "mm.ndjson")
    ivec, inn = vec_of(ctx, res, its, "iter.ndjson")
    ctx.traces += n + inn
    ctx.nontrivial += n
    mm_replay(ctx, binp, vec, "find,rfind,iter,riter,cfg", {"alloc"}, 5 if q else 10)
    replay_cmd(ctx, binp, "replay-alloc-bytes", ivec, "bytes_alloc", {"alloc"})
    ctx.evaluations += sum_exec(ctx, ["mm_exec", "alloc_probe_exec"])
    return C.finish(ctx, "exploration",
                    "the spec contributes the classification of operations (only into_owned and shiftor::Finder::new may allocate) and the inputs: every oracle vector "
                    "(all binary needles/haystacks within the bounds, 1:1 and lifted so that every strategy of the meta searcher is reached, under each forced dispatch level) "
                    "and every byte-iterator behaviour is executed under a counting global allocator armed per thread around each individual call; distinct = distinct vectors")


def c05(ctx):
    q = ctx.quick
    ops = {"find", "rfind", "count"}
    gs = [("g4", "MC_GenericMemchr", dict(VB=4, MinLen=4, MaxLen=20 if q else 40, DenseMax=8, Ops=ops, NNs={1, 2}, Bases=set(range(4)), Families={"sparse", "dense"}, Emit=True), GEN_INV, 3),
          ("g16", "MC_GenericMemchr", dict(VB=16, MinLen=16, MaxLen=90 if q else 150, DenseMax=15, Ops=ops, NNs={1, 2}, Bases={0, 1, 15} if q else {0, 1, 7, 8, 15}, Families={"single"}, Emit=True), GEN_INV, 3),
          ("g32", "MC_GenericMemchr", dict(VB=32, MinLen=32, MaxLen=140 if q else 300, DenseMax=31, Ops=ops, NNs={1, 2}, Bases={0, 31} if q else {0, 1, 16, 31}, Families={"single"}, Emit=True), GEN_INV, 3),
          ("s8", "MC_Swar", dict(WB=8, MaxLen=26 if q else 40, DenseMax=8, Ops=ops, NNs={1, 2}, Families={"sparse", "dense"}, Emit=True), SWAR_INV, 3)]
    ps = pp_shards(ctx, small=True)
    ie = [("ie", "MC_IsEqual", dict(MaxLen=6 if q else 8, LongLen=40 if q else 72, Emit=True), IE_INV, 3)]
    os_ = oracle_shards(ctx)
    res = run_shards(ctx, gs + ps + ie + os_, timeout=3000)
    bvec, bn = vec_of(ctx, res, gs, "bytes.ndjson")
    gvec, _ = vec_of(ctx, res, gs[:3], "generic.ndjson")
    mvec, mn = vec_of(ctx, res, os_, "mm.ndjson")
    pvec, pn = vec_of(ctx, res, ps, "pp.ndjson")
    ctx.traces += bn + mn + pn + res["ie"]["vectors"]
    ctx.nontrivial += bn + mn
    classes = {"oob", "misaligned"}
    for prof in ("dev", "release"):
        binp = C.build_harness(profile=prof)
        replay_cmd(ctx, binp, "replay-guard", bvec, "guard_bytes_%s" % prof, classes)
        replay_cmd(ctx, binp, "replay-guard", mvec, "guard_sub_%s" % prof, classes, extra=["--lifts", 4 if q else 8])
        replay_cmd(ctx, binp, "replay-iseq", res["ie"]["vec_path"], "iseq_%s" % prof, classes)
    wb = simd128_bin(ctx)
    if wb:
        replay_cmd(ctx, wb, "replay-guard", bvec, "guard_bytes_simd128", classes)
        if not q:
            replay_cmd(ctx, wb, "replay-guard", mvec, "guard_sub_simd128", classes, extra=["--lifts", 4])
    binp = C.build_harness()
    # hooked loads of the real generic code at the model widths (vector part) and of the scaled packed-pair code
    replay_cmd(ctx, binp, "replay-generic", gvec, "generic_loads", classes, extra=["--variants", 1, "--stretches", 2])
    replay_cmd(ctx, binp, "replay-pp", pvec, "pp_loads", classes)
    miri_vehicles(ctx, [bvec, mvec], classes, [])     # Miri memory-access errors (out-of-bounds / misaligned) on foreign targets
    ctx.evaluations += sum_exec(ctx, ["guard_exec", "iseq_exec", "real_exec", "scaled_exec", "pp_scaled_exec", "pp_real_exec"])
    return C.finish(ctx, "model_checking",
                    "model: LoadsOK / aligned-loads-aligned are invariants of every L-model with raw loads (GenericMemchr find/rfind/count, Swar, PackedPair find/find_prefilter, IsEqual) "
                    "over every length x alignment x match placement x pair within the bounds; code: every vector (byte search, substring incl. lifted needles > 32 bytes, packed pair "
                    "with extreme offsets, out-of-contract safe calls with a different needle) is executed with haystack and needle ending exactly at / starting exactly after a "
                    "PROT_NONE page in process-isolated children, on a debug-assertions build and on a release build, and all hooked loads are checked against the slices")


def c14(ctx):
    """No panic / abort / overflow inside the documented domain; the documented packed-pair panic exactly when documented."""
    q = ctx.quick
    binp = C.build_harness()   # dev profile: debug-assertions and overflow-checks on, for the crate under test too
    ops = {"find", "rfind", "count"}
    gs = [("g4", "MC_GenericMemchr", dict(VB=4, MinLen=4, MaxLen=24 if q else 40, DenseMax=8, Ops=ops, NNs={1, 2}, Bases=set(range(4)), Families={"sparse", "dense"}, Emit=True), GEN_INV, 3),
          ("g32", "MC_GenericMemchr", dict(VB=32, MinLen=32, MaxLen=140 if q else 300, DenseMax=31, Ops=ops, NNs={1, 2}, Bases={0, 31}, Families={"single"}, Emit=True), GEN_INV, 3)]
    ss = [("s8", "MC_Swar", dict(WB=8, MaxLen=24 if q else 40, DenseMax=8, Ops=ops, NNs={1, 2}, Families={"sparse", "dense"}, Emit=True), SWAR_INV, 3)]
    its = [("it", "MemchrIter", dict(MinLen=0, MaxLen=7 if q else 8, ExtraNones=3, Emit=True), ITER_INV, 3)]
    ps = pp_shards(ctx, small=True)
    ie = [("ie", "MC_IsEqual", dict(MaxLen=6, LongLen=40, Emit=True), IE_INV, 3)]
    pr = [("pairL", "MC_Pair", sub(K_PAIR, PAIRCAP=255, Alpha={0, 1}, MaxN=0, Ranks={0, 1, 2}, LongLens={254, 255, 256, 257, 300, 600}, Emit=True), PAIR_INV, 3),
          ("pair3", "MC_Pair", sub(K_PAIR, Alpha={0, 1, 2}, MaxN=5, Ranks={0, 1, 2}, LongLens=set(), Emit=True), PAIR_INV, 3)]
    tw = [("tw", "MC_TwoWay", sub(K_TW, Alpha={0, 1}, MinN=1, MaxN=5, MaxH=8 if q else 10, Emit=False), TW_INV, 4)]
    mm = memmem_shards(ctx, ["find", "rfind", "iter", "riter"], 5, 6 if q else 8, ranks=(0, 2))
    os_ = oracle_shards(ctx)
    # the adaptive prefilter's u32 counters: every sequence of is_effective/update calls at a scaled counter width
    pst = [("pstate", "MC_PrefilterState", sub(K_PP + ["MIN_SKIPS", "MIN_SKIP_BYTES", "MulSaturates"], CTRMAX=31, Skips={0, 1, 2, 3, 7, 16, 40, 100}), ["NoOverflow", "InRange", "InertIsAbsorbing"], 2)]
    # ... and at the real width on the code: > 2^29 prefilter calls in ONE search with the prefilter staying effective
    # (a ~5.4 GB haystack with candidates 10 bytes apart); found as a genuine defect (fixed, see known_findings.json)
    stress = {}

    def stress_job():
        try:
            avail = int([l for l in open("/proc/meminfo") if l.startswith("MemAvailable")][0].split()[1]) // (1 << 20)
        except Exception:
            avail = 0
        if avail < 12:
            stress["skipped"] = "less than 12 GB of memory available (%d GB)" % avail
            return
        p = subprocess.run(["timeout", "1800", binp, "stress-prefilter-counter"], stdout=subprocess.PIPE, stderr=subprocess.STDOUT, text=True)
        stress["out"] = p.stdout[-400:]
        stress["rc"] = p.returncode

    import threading
    st_thread = threading.Thread(target=stress_job)
    st_thread.start()
    res = run_shards(ctx, gs + ss + its + ps + ie + pr + tw + mm + os_ + pst, timeout=3000)
    classes = {"panic"}
    gvec, gn = vec_of(ctx, res, gs, "generic.ndjson")
    svec, sn = vec_of(ctx, res, ss, "swar.ndjson")
    ivec, inn = vec_of(ctx, res, its, "iter.ndjson")
    pvec, pn = vec_of(ctx, res, ps, "pp.ndjson")
    rvec, rn = vec_of(ctx, res, pr, "pair.ndjson")
    mvec, mn = vec_of(ctx, res, os_, "mm.ndjson")
    ctx.traces += gn + sn + inn + pn + rn + mn + res["ie"]["vectors"]
    ctx.nontrivial += gn + sn + inn + pn + mn
    replay_cmd(ctx, binp, "replay-generic", gvec, "generic", classes, extra=["--variants", 1, "--stretches", 3])
    replay_cmd(ctx, binp, "replay-generic", svec, "swar", classes, extra=["--no-scaled", "--variants", 1, "--stretches", 3])
    replay_cmd(ctx, binp, "replay-iter", ivec, "iter", classes, extra=["--variants", 1, "--stretches", 3])
    replay_cmd(ctx, binp, "replay-pp", pvec, "pp", classes)
    replay_cmd(ctx, binp, "replay-pair", rvec, "pair", classes)
    replay_cmd(ctx, binp, "replay-iseq", res["ie"]["vec_path"], "iseq", classes)
    mm_replay(ctx, binp, mvec, "all", classes, 4 if q else 8)
    # long needles at the real scan cap: pair selection, finders built from pairs with offsets up to 254 (SSE2 / AVX2 /
    # portable) and the meta searcher; and the extreme-offset packed-pair family at the minimum-length boundary
    rargs = ["record-pair", "--trace", os.path.join(ctx.dir, "pair_trace.ndjson"), "--count", 300 if q else 3000]
    rep, rc, err = C.run_harness(ctx, binp, rargs, "rec_pair")
    if rep is None:
        harness_died(ctx, binp, rargs, "rec_pair", rc, err, classes)
    else:
        C.absorb_report(ctx, rep, classes, "rec_pair")
    head = os.path.join(ctx.dir, "mm_head.ndjson")
    with open(head, "w") as o:
        for i, line in enumerate(open(mvec)):
            if i >= 40:
                break
            o.write(line)
    replay_cmd(ctx, binp, "replay-guard", head, "guard_ppx", classes, extra=["--lifts", 1])
    miri_vehicles(ctx, [gvec, svec, mvec], classes, [])
    st_thread.join()
    # a time-out (124) or an out-of-memory kill (SIGKILL) of the 5.4 GB probe says nothing about the code under test
    if "skipped" not in stress and stress.get("rc") in (124, 137, -9) and "Err(" not in stress.get("out", ""):
        stress["skipped"] = "the probe was stopped from outside (rc %s: time-out or out of memory on a loaded machine)" % stress.get("rc")
    if "skipped" in stress:
        ctx.vehicles_skipped.append({"vehicle": "prefilter counter stress (5.4 GB haystack)", "reason": stress["skipped"]})
    elif "Err(" in stress.get("out", "") or stress.get("rc") not in (0,):
        ctx.violation("stress:prefilter-counter", "Finder::find on a 5.4 GB haystack with more than 2^29 effective prefilter calls in one search did not return normally: %s" % stress.get("out", "")[-200:],
                      {"command": "harness stress-prefilter-counter", "needle": "XYb" + "a" * 39, "haystack": "('XYaXaaaaaa' repeated 2^29 + 4096 times)"})
    else:
        ctx.add_counters({"prefilter_counter_stress_calls": (1 << 29) + 4096})
    ctx.evaluations += sum_exec(ctx, ["_exec"])
    extra = tlaps_supplement(ctx, "PrefilterStateUnbounded", ("SatRange", "ProdNat", "InitInv", "NextInv", "Safety"))
    return C.finish(ctx, "model_checking", extra_cov=extra, rule=
                    "model: every L-model carries an explicit `bad`/`panic` flag for index arithmetic that would underflow, slice indices out of range and failed (debug_)assertions; "
                    "NoBad / NoUnderflow / NoPanic are invariants over all enumerations, and for the packed-pair finders `panic <=> |h| < min_haystack_len` is the invariant; "
                    "code: all vectors of the byte-search, iterator, substring (incl. cfg/objects groups), packed-pair, pair-selection and is_equal models are executed in a build "
                    "with debug assertions and overflow checks (for the crate under test too), every call under catch_unwind; scaled packed-pair vectors assert the documented "
                    "panic exactly below min_haystack_len")


def lib_traces(ctx, family, kinds, group, count, tag, forces=("avx2", "sse2", "fallback")):
    """I->S: drive the real code with the recorder's seeded random/structured inputs at real constants and let TLC
    (Trace_Lib) validate every observation against the P-layer oracles."""
    binp = C.build_harness()
    for force in forces:
        tr = os.path.join(ctx.dir, "lib_%s_%s.ndjson" % (tag, force))
        rargs = ["record-lib", "--trace", tr, "--family", family, "--count", count, "--force", force, "--kinds", kinds, "--group", group]
        rep, rc, err = C.run_harness(ctx, binp, rargs, "rec_%s_%s" % (tag, force))
        if rep is None:
            harness_died(ctx, binp, rargs, "rec_%s_%s" % (tag, force), rc, err, {"result", "panic"})
            continue
        n, viol, summ = C.validate_trace(ctx, "Trace_Lib", tr, {}, "lib_%s_%s" % (tag, force), max_records=max(200, count // 12), par=12)
        lib_trace_violations(ctx, tr, "recorded@" + force, viol)
        for s_ in summ:
            ctx.evaluations += s_[3]
            ctx.add_counters({"trace_observations@%s" % force: s_[3], "trace_records@%s" % force: s_[1]})
        if n:
            ctx.sample({"from": "recorded trace (%s)" % force, "case": {k: v for k, v in C.record_at(tr, 1).items() if k in ("k", "n", "h")}})


def iter_traces(ctx, count, ops_filter=None, forces=("avx2", "sse2", "fallback")):
    """I->S for iterators: random call histories on long haystacks, validated by Trace_MemchrIter."""
    binp = C.build_harness()
    for force in forces:
        tr = os.path.join(ctx.dir, "iterhist_%s.ndjson" % force)
        rargs = ["record-iter", "--trace", tr, "--count", count, "--force", force]
        rep, rc, err = C.run_harness(ctx, binp, rargs, "rec_iter_" + force)
        if rep is None:
            harness_died(ctx, binp, rargs, "rec_iter_" + force, rc, err, {"result", "panic", "count"})
            continue
        n, viol, summ = C.validate_trace(ctx, "Trace_MemchrIter", tr, {}, "iterhist_" + force, max_records=max(60, (count * 4) // 12), par=12)
        for (pp, tup) in viol:
            if ops_filter and tup[2] not in ops_filter:
                ctx.note("recorded iterator history: %s disagrees with the model (decided by another property)" % tup[2])
                continue
            recd = C.record_at(pp, tup[1])
            ctx.violation("iterhist:%s:%s:%s" % (force, tup[3], tup[2]),
                          "recorded history of the %s iterator (%s dispatch): call %d (%s) returned %s or its size_hint does not bracket the remaining matches; the abstract machine disagrees" % (
                              tup[3], force, tup[4], tup[2], recd["ops"][tup[4] - 1]), {"record": recd})
        for s_ in summ:
            ctx.evaluations += s_[3]
            ctx.add_counters({"iter_history_calls@%s" % force: s_[3], "iter_histories@%s" % force: s_[1]})
        if n:
            r1 = C.record_at(tr, 1)
            ctx.sample({"from": "recorded iterator history", "case": {"e": r1["e"], "n": r1["n"], "hay_len": len(r1["h"]), "ops": r1["ops"][:8]}})


def c13(ctx):
    q = ctx.quick
    # design level: the cost-annotated L-models obey an explicit linear bound on every input of the bounded domains
    tw = [("tw", "MC_TwoWay", sub(K_TW, Alpha={0, 1}, MinN=1, MaxN=5, MaxH=9 if q else 10, Emit=True), TW_INV, 4),
          ("tw3", "MC_TwoWay", sub(K_TW, MODK=3, Alpha={0, 1, 2}, MinN=1, MaxN=3, MaxH=6 if q else 7, Emit=True), TW_INV, 4)]
    mm = memmem_shards(ctx, ["find", "iter"], 5, 7 if q else 9, ranks=(0, 2))
    ps = pp_shards(ctx, emit=False, small=True)
    res = run_shards(ctx, tw + mm + ps, timeout=3000)
    # the model's cost structure is the code's: the hook's step counters equal the L-model's `ticks` on every small behaviour (conformance)
    tvec, tn = vec_of(ctx, res, tw, "tw.ndjson")
    ctx.traces += tn
    replay_cmd(ctx, C.build_harness(), "replay-tw", tvec, "tw", {"panic"})
    # code level: deterministic step counters on adversarial families at geometrically growing sizes
    binp = C.build_harness(profile="release")
    nrec = 0
    for force in ("avx2", "sse2", "fallback"):
        tr = os.path.join(ctx.dir, "cost_%s.ndjson" % force)
        rep, rc, err = C.run_harness(ctx, binp, ["record-cost", "--trace", tr, "--max-log2", 18 if q else 22, "--force", force], "rec_" + force)
        if rep is None:
            raise ToolError("recorder failed rc=%s: %s" % (rc, err[-1500:]))
        n, viol, summ = C.validate_trace(ctx, "Trace_Cost", tr, dict(CMUL=16, CADD=4096), "cost_" + force)
        nrec += n
        for s_ in summ:
            ctx.add_counters({"max_work_per_100_bytes@%s" % force: 0})
            ctx.counters["max_work_per_100_bytes@%s" % force] = max(ctx.counters.get("max_work_per_100_bytes@%s" % force, 0), s_[3])
        for (pp, tup) in viol:
            recd = C.record_at(pp, tup[1])
            ctx.violation("cost:%s:%s:%s" % (force, tup[2], tup[3]),
                          "%s on family '%s' (needle %d, haystack %d bytes, prefilter=%s, %s): %d elementary steps exceed the linear bound %d" % (
                              tup[3], tup[2], recd["nlen"], recd["hlen"], recd["prefilter"], force, tup[4], tup[5]), {"record": recd})
        if n:
            ctx.sample({"from": "cost trace", "case": C.record_at(tr, 1 + n // 2)})
    ctx.evaluations += nrec
    ctx.nontrivial += nrec
    ctx.assumptions.append("an asymptotic statement is decided only up to the explored sizes (haystacks <= 2^%d bytes) and families; see DESIGN.md section 8" % (18 if q else 22))
    return C.finish(ctx, "model_checking",
                    "design: TLC checks `work <= A*(|h|+|n|)+B` as an invariant of the cost-annotated L-models (Two-Way search and preprocessing, packed pair chunks and "
                    "confirmations, Rabin-Karp hashes, the whole find_iter traversal with the adaptive prefilter) on every input of the bounded domains; code: the hooks' deterministic "
                    "step counters are recorded on adversarial families (a^(m-1)b in a^n, a^m in (a^(m-1)b)^r, unbalanced factorisations with the prefilter off or inert, periodic "
                    "needles in near-period haystacks, rare bytes everywhere, Fibonacci/Thue-Morse, candidate-free prefix + dense false candidates, random factors) with needle "
                    "2..4096 and haystack 2^8..2^18 (quick) / 2^22 (thorough) under each dispatch level; TLC (Trace_Cost) validates work <= 16*(|h|+|n|)+4096 for every record; "
                    "distinct = records")


IF_INV = ["TypeOK", "EveryReturnEqualsSequential", "OnlySupportedImplInvoked", "StoresIdempotent", "DetectAtMostOncePerCall", "NoRedetectAfterImpl"]


def lib_trace_violations(ctx, tr, tag, viol):
    for (pp, tup) in viol:
        recd = C.record_at(pp, tup[1])
        bad = [o for o in recd.get("obs", []) if o.get("e") == tup[3]][:1]
        ctx.violation("%s:%s:%s" % (tag, tup[2], tup[3]),
                      "%s: %s of %s differs from the oracle (needle %d bytes, haystack %d bytes; %d observation(s) of this record fail)" % (
                          tag, tup[2], tup[3], len(recd.get("n", [])), len(recd.get("h", [])), tup[4]),
                      {"record": {k: recd[k] for k in ("k", "n", "h") if k in recd}, "observation": bad})


def routes_conformance(ctx, tr):
    """Per-thread projection of the Ifunc spec on the H6 events: a call either loads an implementation ([101]) or
    loads detect, detects, stores ([100, 11x, 120]); after that, the same thread never sees detect again for that routine."""
    seen_impl = {}
    bad = 0
    n = 0
    detects = 0
    levels = set()
    with open(tr) as f:
        for line in f:
            r = json.loads(line)
            if r.get("k") != "conc":
                continue
            n += 1
            ro = r["routes"]
            key = (r["proc"], r["tid"], r["obs"][0]["e"].split(".", 1)[1])
            if ro == [101]:
                seen_impl[key] = True
            elif len(ro) == 3 and ro[0] in (100, 101) and ro[1] in (111, 112, 113) and ro[2] == 120 and (ro[0] == 100 or r.get("vehicle") == "miri"):
                # (under Miri function-pointer equality is not stable, so the "loaded detect" marker may read 101)
                detects += 1
                levels.add(ro[1])
                if seen_impl.get(key):
                    bad += 1
                seen_impl[key] = True
            elif ro == []:
                pass    # haystack served without the dispatcher (not on x86-64)
            else:
                bad += 1
    ctx.add_counters({"dispatch_calls": n, "dispatch_detects_observed": detects})
    if bad:
        ctx.drift("dispatcher event sequences of %d call(s) are not paths of the per-thread projection of Ifunc" % bad)
    return detects


def c15(ctx):
    q = ctx.quick
    shards = []
    for av in ("avx2", "sse2", "fallback"):
        shards.append(("if_%s" % av, "Ifunc", dict(Threads={"mv:t1", "mv:t2", "mv:t3"}, Routines={"mv:r1"} if q else {"mv:r1", "mv:r2"}, Calls=2, Args={"mv:a1", "mv:a2"},
                                                   Avail=av, CacheWhat="function"), IF_INV, 4))
    if not q:
        shards.append(("if_4x2", "Ifunc", dict(Threads={"mv:t1", "mv:t2", "mv:t3", "mv:t4"}, Routines={"mv:r1"}, Calls=2, Args={"mv:a1"}, Avail="sse2", CacheWhat="function"), IF_INV, 6))
    jobs = []
    for (tag, mod, consts, invs, w) in shards:
        def job(tag=tag, mod=mod, consts=consts, invs=invs, w=w):
            r = run_tlc(ctx, mod, consts, invs, tag, workers=w, timeout=3000, specification="FairSpec", properties=["EveryCallReturns"])
            log("[tlc] %s %s: %d distinct states %.1fs" % (mod, tag, r["distinct_states"], r["seconds"]))
        jobs.append(job)
    parallel(jobs)
    binp = C.build_harness()
    total_detects = 0
    for force in ("avx2", "sse2", "fallback"):
        tr = os.path.join(ctx.dir, "conc_%s.ndjson" % force)
        rep, rc, err = C.run_harness(ctx, binp, ["conc", "--trace", tr, "--procs", 30 if q else 120, "--rounds", 30 if q else 60, "--force", force], "conc_" + force)
        if rep is None:
            raise ToolError("concurrency recorder failed rc=%s: %s" % (rc, err[-1500:]))
        C.absorb_report(ctx, rep, {"panic"}, "conc@" + force)
        n, viol, summ = C.validate_trace(ctx, "Trace_Lib", tr, {}, "conc_" + force, max_records=1500, par=12)
        lib_trace_violations(ctx, tr, "concurrent@" + force, viol)
        for s_ in summ:
            ctx.evaluations += s_[3]
        total_detects += routes_conformance(ctx, tr)
        ctx.sample({"from": "conc trace", "case": C.record_at(tr, 1)})
    # optional vehicle: the same scenario under host Miri with seed-controlled schedules (stale Relaxed reads per seed)
    try:
        from . import miri
        t0 = time.time()
        files = miri.conc_host(ctx, list(range(ctx.seed * 100 + 1, ctx.seed * 100 + (4 if q else 25))))
        mt = os.path.join(ctx.dir, "conc_miri.ndjson")
        with open(mt, "w") as o:
            for fp in files:
                for line in open(fp):
                    r = json.loads(line)
                    r["vehicle"] = "miri"
                    r["proc"] = "miri:%s:%s" % (os.path.basename(fp), r.get("proc"))
                    o.write(json.dumps(r) + "\n")
        n, viol, summ = C.validate_trace(ctx, "Trace_Lib", mt, {}, "conc_miri", max_records=400, par=8)
        lib_trace_violations(ctx, mt, "concurrent@miri-host", viol)
        d = routes_conformance(ctx, mt)
        total_detects += d
        ctx.add_counters({"miri_host_seeds": len(files), "miri_host_detects": d})
        log("[miri] host schedules: %d seeds, %d records, %d racing detects, %.1fs" % (len(files), n, d, time.time() - t0))
    except ToolError as e:
        ctx.vehicles_skipped.append({"vehicle": "miri-host", "reason": str(e)[:300]})
    except Exception as e:
        ctx.vehicles_skipped.append({"vehicle": "miri-host", "reason": "driver error %r" % (e,)})
    ctx.nontrivial += total_detects
    ctx.assumptions.append("schedules of the real code are sampled (fresh processes, barrier release, 2..32 threads), not exhausted; exhaustiveness over schedules is at model level")
    extra = tlaps_supplement(ctx, "IfuncUnbounded", ("InitInv", "NextInv", "Safety"))
    return C.finish(ctx, "model_checking",
                    "Ifunc: TLC explores every interleaving of 3 threads x 2 calls (thorough: 2 routines, 4 threads) of the dispatcher with Relaxed loads/stores modelled by per-location "
                    "modification orders and per-thread views, for every CPU-feature outcome; invariants: every return equals the sequential answer, only supported implementations are invoked, "
                    "stores are idempotent; liveness EveryCallReturns under weak fairness. Code: fresh child processes whose threads are released by a barrier make the first calls to all "
                    "seven dispatched routines, then search fresh shared Finder/FinderRev objects and clones of a partially consumed iterator concurrently; every returned value is validated by "
                    "TLC (Trace_Lib) against the sequential oracle; dispatcher events are checked against the per-thread projection of the spec (conformance); non-trivial = calls that raced through detect", extra_cov=extra)


def c09(ctx):
    """Every backend / build configuration returns identical answers: one fixed vector set, every configuration."""
    q = ctx.quick
    ops = {"find", "rfind", "count"}
    gs = [("g4", "MC_GenericMemchr", dict(VB=4, MinLen=4, MaxLen=22 if q else 40, DenseMax=8, Ops=ops, NNs={1, 2}, Bases=set(range(4)), Families={"sparse", "dense"}, Emit=True), GEN_INV, 3),
          ("g16", "MC_GenericMemchr", dict(VB=16, MinLen=16, MaxLen=100 if q else 176, DenseMax=15, Ops=ops, NNs={1, 2}, Bases={0, 1, 15} if q else set(range(16)), Families={"single"}, Emit=True), GEN_INV, 3),
          ("g32", "MC_GenericMemchr", dict(VB=32, MinLen=32, MaxLen=170 if q else 330, DenseMax=31, Ops=ops, NNs={1, 2}, Bases={0, 31} if q else {0, 1, 16, 31}, Families={"single"}, Emit=True), GEN_INV, 3)]
    ss = [("s8", "MC_Swar", dict(WB=8, MaxLen=24 if q else 40, DenseMax=8, Ops=ops, NNs={1, 2}, Families={"sparse", "dense"}, Emit=True), SWAR_INV, 3),
          ("s4", "MC_Swar", dict(WB=4, MaxLen=16 if q else 24, DenseMax=8, Ops=ops, NNs={1, 2}, Families={"sparse", "dense"}, Emit=True), SWAR_INV, 3)]
    os_ = oracle_shards(ctx)
    res = run_shards(ctx, gs + ss + os_, timeout=3000)
    gvec, gn = vec_of(ctx, res, gs, "generic.ndjson")
    svec, sn = vec_of(ctx, res, ss, "swar.ndjson")
    mvec, mn = vec_of(ctx, res, os_, "mm.ndjson")
    ctx.traces += gn + sn + mn
    ctx.nontrivial += gn + sn + mn
    classes = {"result", "panic"}
    configs = []
    base = C.build_harness()
    for f in ("avx2", "sse2", "fallback"):
        configs.append(("host@" + f, base, {"MEMCHR_VERIF_FORCE": f}, f))
    configs.append(("host-alloc", C.build_harness(features=["alloc"]), None, "avx2"))
    configs.append(("host-core", C.build_harness(features=[]), None, "avx2"))
    configs.append(("host-avx2ct", C.build_harness(rustflags_extra=["-C", "target-feature=+avx2"]), None, "avx2"))
    if not q:
        configs.append(("host-logging", C.build_harness(features=["std", "logging"]), None, "avx2"))
        configs.append(("host-release", C.build_harness(profile="release"), None, "avx2"))
    try:
        configs.append(("simd128", C.build_simd128(), None, "avx2"))
    except ToolError as e:
        ctx.vehicles_skipped.append({"vehicle": "simd128", "reason": str(e)[:300]})
    executed = []
    for (name, binp, env, force) in configs:
        replay_cmd(ctx, binp, "replay-generic", gvec, "generic@" + name, classes, extra=["--variants", 1, "--stretches", 3], env=env)
        replay_cmd(ctx, binp, "replay-generic", svec, "swar@" + name, classes, extra=["--no-scaled", "--variants", 1, "--stretches", 3], env=env)
        replay_cmd(ctx, binp, "replay-mm", mvec, "mm@" + name, classes, extra=["--lifts", 5 if q else 10, "--groups", "find,rfind,iter,riter,blocks", "--force", force], env=env)
        executed.append(name)
    miri_vehicles(ctx, [gvec, svec, mvec], classes, executed, targets=["neon", "be64", "le32"])
    ctx.evaluations += sum_exec(ctx, ["real_exec", "scaled_exec", "mm_exec", "miri_exec"])
    ctx.assumptions.append("x86-64 compiled without SSE2 cannot be built in this sandbox; wasm simd128 runs against emulated intrinsics (7 functions in vehicles/wasm32_emul.rs)")
    return C.finish(ctx, "model_checking",
                    "the P-layer oracle is configuration independent and the L/F models are checked against it for every configuration constant (VB, UNROLL, mask kind, WB, Avail, prefilter "
                    "kind); the check proper is a differential S->I run: one fixed TLC vector set (byte search at VB=4/16/32 and WB=4/8, all substring oracle vectors, 1:1 and stretched/lifted) "
                    "is executed in every configuration: host with forced AVX2 / SSE2-only / fallback dispatch, features alloc-only and none, compile-time +avx2, the rewritten simd128 copy, "
                    "and (optional vehicles) NEON on aarch64, big-endian s390x and 32-bit i686 under Miri; every configuration's answers must equal the vector's expected answers",
                    extra_cov={"configurations_executed": executed})


def c01(ctx):
    byte_search(ctx, ["find"], {"result", "panic"})
    lib_traces(ctx, "bytes", "first", "all", 1500 if ctx.quick else 12000, "bytes")
    extra = tlaps_supplement(ctx, "GenericFwdUnbounded", ("InitInv", "NextInv", "Safety"))
    e2 = tlaps_supplement(ctx, "SwarFwdUnbounded", ("InitInv", "NextInv", "Safety"))
    if "tlaps" in e2:
        extra["tlaps_swar"] = e2["tlaps"]
    return C.finish(ctx, "model_checking", RULE_BYTES, extra_cov=extra)


def c02(ctx):
    byte_search(ctx, ["rfind"], {"result", "panic"})
    lib_traces(ctx, "bytes", "last", "all", 1500 if ctx.quick else 12000, "bytes")
    extra = tlaps_supplement(ctx, "GenericRevUnbounded", ("InitInv", "NextInv", "Safety"))
    return C.finish(ctx, "model_checking", RULE_BYTES, extra_cov=extra)


def c07(ctx):
    byte_search(ctx, ["count"], {"result", "panic"})
    iter_part(ctx, {"count", "panic"})
    lib_traces(ctx, "bytes", "count", "all", 1500 if ctx.quick else 12000, "bytes")
    iter_traces(ctx, 100 if ctx.quick else 1000, ops_filter={"count"}, forces=("avx2", "fallback"))
    extra = tlaps_supplement(ctx, "GenericCountUnbounded", ("InitInv", "NextInv", "InvCorrect", "Safety"))
    return C.finish(ctx, "model_checking", RULE_BYTES, extra_cov=extra)


RECIPES = {"C01": c01, "C02": c02, "C03": c03, "C04": c04, "C05": c05, "C06": c06, "C09": c09, "C07": c07, "C08": c08, "C10": c10, "C11": c11, "C12": c12, "C13": c13, "C14": c14, "C15": c15, "C16": c16, "C17": c17, "C18": c18, "C19": c19}


def run(prop, tier, seed):
    if prop not in RECIPES:
        raise ToolError("no check for property %s" % prop)
    ctx = Ctx(prop, tier, seed)
    return RECIPES[prop](ctx)


def replay(prop, path, seed):
    """Re-execute one saved violation context against the current tree."""
    ctx = Ctx(prop + "_replay", "quick", seed)
    obj = json.load(open(path))
    c = obj.get("ctx") or {}
    binp = C.build_harness()
    if str(c.get("command", "")).endswith("stress-prefilter-counter"):
        p = subprocess.run(["timeout", "1800", binp, "stress-prefilter-counter"], stdout=subprocess.PIPE, stderr=subprocess.STDOUT, text=True)
        print(p.stdout[-300:])
        if p.returncode in (124, 137, -9) and "Err(" not in p.stdout:
            raise ToolError("the 5.4 GB probe was stopped from outside (rc %s: time-out or out of memory)" % p.returncode)
        if "Err(" in p.stdout or p.returncode != 0:
            print("VIOLATION property=%s replay=%s" % (prop, path))
            return 1
        return 0
    if "harness_args" in c:
        # the harness process died (panic inside the crate / fatal signal): run the same seeded command again
        missing = [a for a in c["harness_args"] if a.startswith("/") and a.endswith(".ndjson") and "--in" in c["harness_args"] and c["harness_args"][c["harness_args"].index("--in") + 1] == a and not os.path.exists(a)]
        if missing:
            raise ToolError("the input vectors %s of this run are gone; re-run the check to regenerate them" % missing[0])
        env = dict(os.environ)
        env.update(c.get("env") or {})
        p = subprocess.run(["timeout", "1800", binp] + c["harness_args"] + ["--out", os.path.join(ctx.dir, "again.json"), "--seed", str(c.get("seed", seed))], env=env, stdout=subprocess.PIPE, stderr=subprocess.PIPE, text=True)
        print(json.dumps({"rc": p.returncode, "stderr_tail": p.stderr[-400:]}))
        if p.returncode in (124, 137, -9):
            raise ToolError("the harness was stopped from outside (rc %s: time-out or out of memory)" % p.returncode)
        if p.returncode != 0:
            print("VIOLATION property=%s replay=%s" % (prop, path))
            return 1
        return 0
    if "record" in c and "ticks" in c["record"]:
        # C13: re-run the cost recorder and validate the same family/size again
        tr = os.path.join(ctx.dir, "cost.ndjson")
        rep, rc, err = C.run_harness(ctx, C.build_harness(profile="release"), ["record-cost", "--trace", tr, "--max-log2", 18, "--force", c["record"].get("force", "avx2")], "rec")
        n, viol, summ = C.validate_trace(ctx, "Trace_Cost", tr, dict(CMUL=16, CADD=4096), "cost")
        bad = [t for (_, t) in viol if t[2] == c["record"]["family"]]
        print(json.dumps({"records": n, "violations_same_family": bad[:5]}))
        if bad:
            print("VIOLATION property=%s replay=%s" % (prop, path))
            return 1
        return 0
    if "record" in c and "ops" in c["record"]:
        tr = os.path.join(ctx.dir, "one.ndjson")
        with open(tr, "w") as f:
            f.write(json.dumps(c["record"]) + "\n")
        # a recorded iterator history is re-validated as recorded (the history itself is the counterexample) after re-executing it is not possible without its RNG; report the validator's verdict
        n, viol, summ = C.validate_trace(ctx, "Trace_Objects" if "hs" in c["record"] else "Trace_MemchrIter", tr, {}, "iter")
        print(json.dumps({"violations": [t for (_, t) in viol]}))
        if viol:
            print("VIOLATION property=%s replay=%s" % (prop, path))
            return 1
        return 0
    if "record" in c:
        tr = os.path.join(ctx.dir, "one.ndjson")
        subprocess.run([binp, "rerecord", "--in", path, "--trace", tr], check=True)
        n, viol, summ = C.validate_trace(ctx, "Trace_Lib", tr, {}, "lib")
        print(json.dumps({"observations": summ, "violations": [t for (_, t) in viol]}))
        if viol:
            print("VIOLATION property=%s replay=%s" % (prop, path))
            return 1
        return 0
    if "vector_line" in c:
        from . import miri
        executed = []
        name = [k for k, v in miri.TARGETS.items() if v == c.get("target")][0]
        execs, chunks = miri.run_target(ctx, name, [c["vector_line"]], {"result", "panic", "oob", "misaligned"}, par=1)
        print(json.dumps({"miri_calls": execs, "violations": [v["what"] for v in ctx.violations][:5]}))
        if ctx.violations:
            print("VIOLATION property=%s replay=%s" % (prop, path))
            return 1
        return 0
    vec = c.get("vector")
    if vec is None:
        raise ToolError("replay file has no vector")
    vp = os.path.join(ctx.dir, "one.ndjson")
    with open(vp, "w") as f:
        f.write(json.dumps(vec) + "\n")
    m = vec.get("m")
    if prop == "C05" or m == "ppx":
        args = ["replay-guard", "--in", vp, "--threads", 1, "--lifts", 12, "--tmp", os.path.join(ctx.dir, "iso")]
    elif m == "obj":
        args = ["replay-obj", "--in", vp, "--lifts", 12, "--threads", 1]
    elif m == "mm":
        args = ["replay-mm", "--in", vp, "--lifts", 16, "--groups", "all", "--threads", 1]
    elif m == "pp":
        args = ["replay-pp", "--in", vp, "--threads", 1]
    elif m == "pair":
        args = ["replay-pair", "--in", vp, "--threads", 1]
    elif m == "iseq":
        args = ["replay-iseq", "--in", vp, "--threads", 1, "--tmp", os.path.join(ctx.dir, "iso")]
    elif m == "iter":
        args = ["replay-iter", "--in", vp, "--variants", 12, "--stretches", 12, "--threads", 1]
    elif m in ("generic", "swar"):
        args = ["replay-generic", "--in", vp, "--variants", 10, "--stretches", 12, "--threads", 1]
        if m == "swar":
            args.append("--no-scaled")
    else:
        raise ToolError("unknown vector kind %r" % m)
    rep, rc, err = C.run_harness(ctx, binp, args, "replay")
    if rep is None:
        raise ToolError("replayer failed: %s" % err[-2000:])
    bad = {k: v for k, v in rep.get("finding_counts", {}).items() if k != "drift"}
    print(json.dumps({"finding_counts": rep.get("finding_counts", {}), "first": [v[0] for v in rep.get("findings", {}).values()][:3]}, indent=1)[:4000])
    if bad:
        print("VIOLATION property=%s replay=%s" % (prop, path))
        return 1
    return 0
