-------------------------- MODULE MC_PrefilterState --------------------------
(***************************************************************************)
(* Action-style instance of the adaptive prefilter state machine with the  *)
(* counter width scaled down (CTRMAX = 2^k - 1): any sequence of           *)
(* is_effective() / update(k) calls as Two-Way makes them (update only     *)
(* after an effective check).  Invariants: no arithmetic leaves the        *)
(* counter width (C14), the inert state is absorbing, the counters stay in *)
(* range.  With MulSaturates = FALSE (the code before the fix) TLC finds   *)
(* the overflow; with TRUE it holds for every call sequence.               *)
(***************************************************************************)
EXTENDS Prefilter, TLC
CONSTANTS Skips          \* set of skip distances a prefilter call may report (may exceed CTRMAX)
VARIABLES ps, phase, ovf, wasInert
vars == <<ps, phase, ovf, wasInert>>
Init == ps = PS_New /\ phase = "check" /\ ovf = FALSE /\ wasInert = FALSE
Check == /\ phase = "check"
         /\ LET e == PS_Effective(ps) IN
            /\ ovf' = (ovf \/ (~MulSaturates /\ PS_MulOverflows(ps)))
            /\ ps' = e.ps
            /\ phase' = IF e.eff THEN "update" ELSE "check"
            /\ wasInert' = (wasInert \/ PS_Inert(e.ps))
Update == /\ phase = "update"
          /\ \E k \in Skips : ps' = PS_Update(ps, k)
          /\ phase' = "check"
          /\ UNCHANGED <<ovf, wasInert>>
Next == Check \/ Update
NoOverflow == ~ovf
InRange == ps.skips \in 0..CTRMAX /\ ps.skipped \in 0..CTRMAX
InertIsAbsorbing == wasInert => PS_Inert(ps)
=============================================================================
