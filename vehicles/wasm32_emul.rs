//! Emulation of the seven `core::arch::wasm32` simd128 intrinsics used by
//! memchr, so that the real `arch/wasm32/*` code and the wasm `Vector` impl
//! can be compiled and executed natively (no wasm runtime is installed and
//! Miri has no shim for `llvm.wasm.bitmask.v16i8`). Trusted code of the
//! verification framework; cross-checked against the lane model of VecOps.
#![allow(non_camel_case_types, missing_docs)]

#[derive(Clone, Copy, Debug)]
#[repr(C, align(16))]
pub struct v128(pub [u8; 16]);

#[inline(always)]
pub fn u8x16_splat(b: u8) -> v128 {
    v128([b; 16])
}

/// Unaligned 16-byte load.
#[inline(always)]
pub unsafe fn v128_load(p: *const v128) -> v128 {
    let mut v = [0u8; 16];
    core::ptr::copy_nonoverlapping(p as *const u8, v.as_mut_ptr(), 16);
    v128(v)
}

#[inline(always)]
pub fn u8x16_bitmask(a: v128) -> u16 {
    let mut m = 0u16;
    for i in 0..16 {
        m |= ((a.0[i] >> 7) as u16) << i;
    }
    m
}

#[inline(always)]
pub fn u8x16_eq(a: v128, b: v128) -> v128 {
    let mut v = [0u8; 16];
    for i in 0..16 {
        v[i] = if a.0[i] == b.0[i] { 0xFF } else { 0 };
    }
    v128(v)
}

#[inline(always)]
pub fn v128_and(a: v128, b: v128) -> v128 {
    let mut v = [0u8; 16];
    for i in 0..16 {
        v[i] = a.0[i] & b.0[i];
    }
    v128(v)
}

#[inline(always)]
pub fn v128_or(a: v128, b: v128) -> v128 {
    let mut v = [0u8; 16];
    for i in 0..16 {
        v[i] = a.0[i] | b.0[i];
    }
    v128(v)
}
