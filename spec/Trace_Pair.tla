------------------------------ MODULE Trace_Pair ------------------------------
(***************************************************************************)
(* I->S validator for C19 at the real scan cap (PAIRCAP = 255).  Records:  *)
(*  [k |-> "ranker", n |-> needle bytes, rank |-> 256 ranks, none, i1, i2, *)
(*   fi1, fi2]   Pair::with_ranker on a recorded needle (fi* = the pair     *)
(*                reported by a finder built from it, -1 if none was built)*)
(*  [k |-> "indices", len, a, acc |-> accepted b's]                        *)
(*                Pair::with_indices(needle of `len` bytes, a, b) for all  *)
(*                b in 0..255                                              *)
(* Verdict: PR_Valid / exact acceptance set / finder reports its pair.     *)
(* Conformance: the selected pair equals the L-model's (PR_WithRanker).    *)
(***************************************************************************)
EXTENDS Pair, Json, IOUtils

Rec == ndJsonDeserialize(IOEnv.TRACE)
VARIABLES l, nviol, ndrift

Sel(r) == [none |-> r.none, i1 |-> r.i1, i2 |-> r.i2]
RankF(r) == [b \in 0..255 |-> r.rank[b + 1]]
OkRanker(r) == /\ PR_Valid(r.n, Sel(r))
               /\ (r.fi1 >= 0 => r.fi1 = r.i1 /\ r.fi2 = r.i2)
ConfRanker(r) == LET m == PR_WithRanker(r.n, RankF(r)) IN m.none = r.none /\ (~m.none => m.i1 = r.i1 /\ m.i2 = r.i2)
OkIndices(r) == {r.acc[i] : i \in 1..Len(r.acc)} = {b \in 0..255 : b # r.a /\ r.a < r.len /\ b < r.len}

Init == l = 1 /\ nviol = 0 /\ ndrift = 0
Next == /\ l <= Len(Rec)
        /\ LET r == Rec[l]
               ok == IF r.k = "ranker" THEN OkRanker(r) ELSE OkIndices(r)
               cf == IF r.k = "ranker" THEN ConfRanker(r) ELSE TRUE IN
           /\ nviol' = IF ok THEN nviol ELSE nviol + 1
           /\ ndrift' = IF cf THEN ndrift ELSE ndrift + 1
           /\ IF ok THEN TRUE ELSE PrintT(<<"VIOLATION", l, r.k, "pair", 1>>)
           /\ IF cf THEN TRUE ELSE PrintT(<<"DRIFT", l, r.k>>)
        /\ l' = l + 1
AllConsumed == TLCGet("stats").diameter - 1 = Len(Rec)
Summary == (l = Len(Rec) + 1) => PrintT(<<"SUMMARY", Len(Rec), nviol, ndrift>>)
=============================================================================
