"""Source of MANIFEST.json (bin/gen_manifest writes it)."""

TITLES = {
 "C01": "Forward byte search returns exactly the first matching position",
 "C02": "Reverse byte search returns exactly the last matching position",
 "C03": "Forward substring search returns exactly the leftmost occurrence",
 "C04": "Reverse substring search returns exactly the rightmost occurrence",
 "C05": "Safe searches never read outside the slices they are given",
 "C06": "Byte-search iterators yield every match exactly once in any call order",
 "C07": "Byte counting equals the number of matching bytes",
 "C08": "Substring iterators yield the greedy non-overlapping match sequence",
 "C09": "Every backend and build configuration returns identical answers",
 "C10": "Performance heuristics never change search results",
 "C11": "Candidate prefilters never skip a real match",
 "C12": "Each public substring building block agrees with naive search",
 "C13": "Substring search does work linear in haystack plus needle length",
 "C14": "No panic, abort or arithmetic overflow on any input in the documented domain",
 "C15": "Concurrent use gives the same answers as sequential use",
 "C16": "A finder is a pure function of its needle: reuse, clone, borrow, own",
 "C17": "Searching performs no heap allocation",
 "C18": "is_equal, is_prefix and is_suffix coincide with slice comparison",
 "C19": "Pair selection yields valid, distinct needle offsets for every ranker",
}

TRUST = ("TLC 1.8.0 and the TLA+ CommunityModules; the P-layer oracles in spec/Bytes.tla; the Rust harness in /verif/harness "
         "(value tables, affine stretch map, result comparison); the cfg(memchr_verif) hooks (event log, ScaledVec) in /repo/src/verif.rs")

# property -> dict(category, text, design_ref, note, technique)
CHECKS = {}

def add(pid, category, text, design_ref, note, technique):
    CHECKS[pid] = dict(category=category, text=text, design_ref=design_ref, note=note, technique=technique)

BYTES_TECH = ("TLA+ L-models GenericMemchr/Swar checked by TLC against the Bytes oracles; every TLC behaviour replayed into the "
              "real code (scaled generic instantiation + all backends + forced dispatch), load sequence conformance")
add("C01", "model_checking",
    "TLC exhausts the L-models of the generic vector search (VB=2,4,8 whole loop structure; VB=16,32 slices) and of the SWAR fallback "
    "(WB=2,4,8) over every length x start alignment x match placement within the listed bounds with invariants result=FirstMatch, "
    "loads in bounds/aligned, coverage and a linear step bound; every terminated behaviour is replayed on the real generic code at the "
    "model's width (result + load sequence must agree) and on every public backend/top-level function incl. forced SSE2-only and "
    "fallback dispatch, with needle-value tables and affine stretches. Model-checking strength inside the bounds, bound to the code by conformance.",
    "DESIGN.md 4 C01", TRUST + "; byte values covered by tables, not exhaustively", BYTES_TECH)
add("C02", "model_checking",
    "As C01 for the reverse actions (end-pointer alignment enumerated; result=LastMatch).",
    "DESIGN.md 4 C02", TRUST, BYTES_TECH)
add("C07", "model_checking",
    "As C01 for One::count_raw (scalar head, unrolled popcount loop, vector loop, scalar tail) incl. all-match haystacks with holes and "
    "all contents for short lengths; result=CountMatch; replayed on count/count_raw/iter.count of every backend.",
    "DESIGN.md 4 C07", TRUST, BYTES_TECH)

NOT_YET = {}
for p in TITLES:
    if p not in CHECKS:
        NOT_YET[p] = "check under construction in this round (see DESIGN.md section 10 for the order); no claim is made yet"
