-------------------------------- MODULE MC_Pair --------------------------------
(* Exhaustive instance of pair selection: all needles 0..MaxN over Alpha x all    *)
(* rankers Alpha -> Ranks (incl. constant and non-injective ones), with the scan  *)
(* cap scaled to PAIRCAP; with_indices for every (a, b) in 0..MaxN+1 squared.     *)
EXTENDS Pair, TLC, Json
CONSTANTS Alpha, MaxN, Ranks, Emit
VARIABLES n, rank, done
Init == n \in Seqs(Alpha, 0, MaxN) /\ rank \in [Alpha -> Ranks] /\ done = FALSE
Next == ~done /\ done' = TRUE /\ UNCHANGED <<n, rank>>
P == PR_WithRanker(n, rank)
SelectionValid == done => PR_Valid(n, P)
\* the first offset is a position of a byte of minimal rank among the scanned prefix
RarestFirst == (done /\ ~P.none) =>
   \A k \in 0..Min2(Len(n), PAIRCAP) - 1 : rank[At(n, P.i1)] <= rank[At(n, k)]
IndicesExact == done => \A a, b \in 0..MaxN + 1 : (~PR_WithIndices(n, a, b).none) <=> PR_IndicesAccepts(n, a, b)
Vector == [m |-> "pair", needle |-> n, rank |-> [k \in 1..Cardinality(Alpha) |-> rank[k - 1]], none |-> P.none, i1 |-> P.i1, i2 |-> P.i2,
           acc |-> [k \in 1..(MaxN + 2) * (MaxN + 2) |->
                     LET a == (k - 1) \div (MaxN + 2)  b == (k - 1) % (MaxN + 2) IN <<a, b, PR_IndicesAccepts(n, a, b)>>]]
EmitReplay == (Emit /\ done) => PrintT(<<"REPLAY", ToJson(Vector)>>)
=============================================================================
