//! Lean replay for the Miri vehicles (foreign targets run ~1000x slower, so no
//! JSON and no per-call context objects): a plain text sample of TLC vectors is
//! executed on every backend present on the target and compared with the
//! model's expected values. Findings are printed one per line.
//!   G <op> <nn> <len> <res> <m1,m2,..|->          byte search (matches list)
//!   M <find> <rfind> <n sym,..|-> <h sym,..|-> <fwd,..|-> <rev,..|->   substring
use crate::backends::all_searchers;
use crate::r_generic::{fill_hay, real_calls, value_row, Op, STRETCH};
use crate::r_mm::lift_for;
use crate::util::*;
use memchr::memmem;

fn list(s: &str) -> Vec<i64> {
    if s == "-" {
        Vec::new()
    } else {
        s.split(',').map(|x| x.parse().unwrap()).collect()
    }
}

pub fn run(path: &str, seed: u64) -> (u64, u64) {
    let text = std::fs::read_to_string(path).unwrap();
    let mut execs = 0u64;
    let mut findings = 0u64;
    let mut report = |class: &str, what: String, line: &str| {
        findings += 1;
        println!("FINDING\t{class}\t{what}\t{line}");
    };
    for (idx, line) in text.lines().enumerate() {
        let f: Vec<&str> = line.split_whitespace().collect();
        if f.is_empty() {
            continue;
        }
        let j = idx.wrapping_add(seed as usize);
        match f[0] {
            "G" => {
                let op = match f[1] {
                    "find" => Op::Find,
                    "rfind" => Op::Rfind,
                    _ => Op::Count,
                };
                let nn: usize = f[2].parse().unwrap();
                let len: usize = f[3].parse().unwrap();
                let res: i64 = f[4].parse().unwrap();
                let ms: Vec<usize> = list(f[5]).into_iter().map(|x| x as usize).collect();
                for (rnn, st) in [(nn, 0usize), (if nn == 2 { 3 } else { nn }, 1)] {
                    let (needles, filler) = value_row(rnn, j + st);
                    let (off, s, extra) = if st == 0 { (0, 1, 0) } else { STRETCH[(st + j) % STRETCH.len()] };
                    let nlen = if len == 0 { off + extra } else { off + (len - 1) * s + 1 + extra };
                    let mm: Vec<usize> = ms.iter().map(|m| off + m * s).collect();
                    let mut p = Placed::new(nlen, j % 64, filler);
                    p.fill_slack(needles[0]);
                    fill_hay(p.slice_mut(), &mm, &needles, filler, j + st);
                    let h = p.slice();
                    let want = if op == Op::Count || res < 0 { res } else { off as i64 + res * s as i64 };
                    for sr in all_searchers(&needles, false) {
                        for (entry, got, fixed) in real_calls(&*sr, op, h) {
                            execs += 1;
                            let want = fixed.unwrap_or(want);
                            match got {
                                Err(m) => report("panic", format!("{}::{entry} panicked: {m}", sr.backend()), line),
                                Ok(r) if r != want => report("result", format!("{}::{entry} returned {r}, oracle {want} (len {nlen}, stretch {off}/{s})", sr.backend()), line),
                                _ => {}
                            }
                        }
                    }
                }
            }
            "M" => {
                let find: i64 = f[1].parse().unwrap();
                let rfind: i64 = f[2].parse().unwrap();
                let ns: Vec<u8> = list(f[3]).into_iter().map(|x| x as u8).collect();
                let hs: Vec<u8> = list(f[4]).into_iter().map(|x| x as u8).collect();
                let fwd = list(f[5]);
                let rev = list(f[6]);
                let nl = if ns.is_empty() { 1 } else { 3 };
                for k in 0..nl {
                    // k = 0: 1:1; then one pad-only lift and one block substitution
                    let lift = lift_for(j, [0, 1 + j % 3, 4 + j % 5][k]);
                    let n = lift.seq(&ns);
                    let h = lift.hay(&hs);
                    let wf = lift.idx(find);
                    let wr = if ns.is_empty() { rfind } else { lift.idx(rfind) };
                    let wfwd: Vec<i64> = fwd.iter().map(|&i| lift.idx(i)).collect();
                    let wrev: Vec<i64> = rev.iter().map(|&i| lift.idx(i)).collect();
                    let mut chk = |entry: &str, got: Result<i64, String>, want: i64| {
                        execs += 1;
                        match got {
                            Err(m) => report("panic", format!("{entry} panicked: {m}"), line),
                            Ok(g) if g != want => report("result", format!("{entry} returned {g}, oracle {want} (lift s={} pl={})", lift.s, lift.pl), line),
                            _ => {}
                        }
                    };
                    chk("memmem::find", guard(|| opt_to_i(memmem::find(&h, &n))), wf);
                    chk("memmem::rfind", guard(|| opt_to_i(memmem::rfind(&h, &n))), wr);
                    chk("Finder::find", guard(|| opt_to_i(memmem::Finder::new(&n).find(&h))), wf);
                    chk("FinderRev::rfind", guard(|| opt_to_i(memmem::FinderRev::new(&n).rfind(&h))), wr);
                    chk("build_forward[None].find", guard(|| opt_to_i(memmem::FinderBuilder::new().prefilter(memmem::Prefilter::None).build_forward(&n).find(&h))), wf);
                    {
                        use memchr::arch::all::{rabinkarp, twoway};
                        chk("twoway::Finder", guard(|| opt_to_i(twoway::Finder::new(&n).find(&h, &n))), wf);
                        chk("twoway::FinderRev", guard(|| opt_to_i(twoway::FinderRev::new(&n).rfind(&h, &n))), wr);
                        chk("rabinkarp::Finder", guard(|| opt_to_i(rabinkarp::Finder::new(&n).find(&h, &n))), wf);
                    }
                    // prefix / suffix truncations at boundary lengths (TruncLemma of MC_SubOracle gives the expected
                    // values): the occurrence ends one before / exactly at / one after the end of the haystack, haystack
                    // as long as the needle, lengths around one vector, and on aarch64 the packed-pair minimum length +-1
                    if !ns.is_empty() && k == j % nl {
                        let nlen = n.len();
                        let mut ls: Vec<usize> = Vec::new();
                        if wf >= 0 {
                            let e = wf as usize + nlen;
                            ls.extend([e - 1, e, e + 1]);
                        }
                        ls.extend([nlen, nlen + 1, 15, 16, 17]);
                        #[cfg(target_arch = "aarch64")]
                        if let Some(pf) = memchr::arch::aarch64::neon::packedpair::Finder::new(&n) {
                            let m = pf.min_haystack_len();
                            ls.extend([m - 1, m, m + 1]);
                        }
                        ls.retain(|&l| l <= h.len());
                        ls.sort();
                        ls.dedup();
                        for l in ls {
                            let want = if wf >= 0 && wf as usize + nlen <= l { wf } else { -1 };
                            chk(&format!("memmem::find[prefix of {l} bytes]"), guard(|| opt_to_i(memmem::find(&h[..l], &n))), want);
                            chk(&format!("Finder::find[prefix of {l} bytes]"), guard(|| opt_to_i(memmem::Finder::new(&n).find(&h[..l]))), want);
                            let cut = h.len() - l;
                            let wantr = if wr >= 0 && wr as usize >= cut { wr - cut as i64 } else { -1 };
                            chk(&format!("memmem::rfind[suffix of {l} bytes]"), guard(|| opt_to_i(memmem::rfind(&h[cut..], &n))), wantr);
                        }
                    }
                    #[cfg(target_arch = "aarch64")]
                    {
                        use memchr::arch::aarch64::neon;
                        if let Some(pf) = neon::packedpair::Finder::new(&n) {
                            if h.len() >= pf.min_haystack_len() {
                                chk("neon::packedpair::find", guard(|| opt_to_i(pf.find(&h, &n))), wf);
                                let c = guard(|| opt_to_i(pf.find_prefilter(&h)));
                                execs += 1;
                                match c {
                                    Ok(c) if wf >= 0 && (c < 0 || c > wf) => report("result", format!("neon find_prefilter returned {c}, first occurrence {wf}"), line),
                                    Err(m) => report("panic", format!("neon find_prefilter panicked: {m}"), line),
                                    _ => {}
                                }
                            }
                        }
                    }
                    if !ns.is_empty() || k == 0 {
                        let got: Result<Vec<i64>, String> = guard(|| memmem::find_iter(&h, &n).map(|x| x as i64).take(h.len() + 2).collect());
                        execs += 1;
                        match got {
                            Err(m) => report("panic", format!("find_iter panicked: {m}"), line),
                            Ok(g) if g != wfwd => report("result", format!("find_iter yielded {:?}, oracle {:?}", g, wfwd), line),
                            _ => {}
                        }
                        let got: Result<Vec<i64>, String> = guard(|| memmem::rfind_iter(&h, &n).map(|x| x as i64).take(h.len() + 2).collect());
                        execs += 1;
                        match got {
                            Err(m) => report("panic", format!("rfind_iter panicked: {m}"), line),
                            Ok(g) if g != wrev => report("result", format!("rfind_iter yielded {:?}, oracle {:?}", g, wrev), line),
                            _ => {}
                        }
                    }
                }
            }
            _ => {}
        }
    }
    println!("MIRI-SAMPLE\texecs={execs}\tfindings={findings}");
    (execs, findings)
}
