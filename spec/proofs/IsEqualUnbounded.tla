---------------------------- MODULE IsEqualUnbounded ----------------------------
(***************************************************************************)
(* Unbounded supplement to IsEqual (C18/C05), proved with TLAPS:           *)
(* is_equal_raw(x, y, n) for ARBITRARY n: while n >= 4 compare 4 bytes;    *)
(* if n >= 2 compare 2; if n > 0 compare 1.  D is the set of positions     *)
(* where the operands differ (D \subseteq 0..N-1).  Theorems: every load   *)
(* [off, off + size) lies inside [0, N); the result is TRUE iff D = {}.    *)
(***************************************************************************)
EXTENDS Integers, TLAPS

CONSTANTS N, D
ASSUME NAssump == N \in Nat
ASSUME DAssump == D \subseteq 0..(N - 1)

VARIABLES pc, off, res, lo, hi

vars == <<pc, off, res, lo, hi>>

Diff(a, b) == \E p \in D : a <= p /\ p < b

Init == pc = "w4" /\ off = 0 /\ res = TRUE /\ lo = 0 /\ hi = 0

W4 == /\ pc = "w4"
      /\ IF N - off >= 4
         THEN /\ lo' = off /\ hi' = off + 4
              /\ IF Diff(off, off + 4) THEN res' = FALSE /\ pc' = "done" /\ off' = off
                 ELSE res' = res /\ pc' = "w4" /\ off' = off + 4
         ELSE pc' = "w2" /\ UNCHANGED <<off, res, lo, hi>>
W2 == /\ pc = "w2"
      /\ IF N - off >= 2
         THEN /\ lo' = off /\ hi' = off + 2
              /\ IF Diff(off, off + 2) THEN res' = FALSE /\ pc' = "done" /\ off' = off
                 ELSE res' = res /\ pc' = "w1" /\ off' = off + 2
         ELSE pc' = "w1" /\ UNCHANGED <<off, res, lo, hi>>
W1 == /\ pc = "w1"
      /\ IF N - off > 0
         THEN /\ lo' = off /\ hi' = off + 1
              /\ res' = ~Diff(off, off + 1) /\ pc' = "done" /\ off' = off + 1
         ELSE pc' = "done" /\ UNCHANGED <<off, res, lo, hi>>
Next == W4 \/ W2 \/ W1
Spec == Init /\ [][Next]_vars

TypeOK == pc \in {"w4", "w2", "w1", "done"} /\ off \in Int /\ res \in BOOLEAN /\ lo \in Int /\ hi \in Int
LoadsInBounds == 0 <= lo /\ lo <= hi /\ hi <= N
Progress == /\ 0 <= off /\ off <= N
            /\ (pc # "done" => (res = TRUE /\ ~Diff(0, off)))
            /\ (pc = "w2" => N - off < 4)
            /\ (pc = "w1" => N - off < 2)
Correct == pc = "done" => (res <=> D = {})
Inv == TypeOK /\ LoadsInBounds /\ Progress /\ Correct

THEOREM InitInv == Init => Inv
  BY NAssump, DAssump DEF Init, Inv, TypeOK, LoadsInBounds, Progress, Correct, Diff

THEOREM NextInv == Inv /\ [Next]_vars => Inv'
<1> SUFFICES ASSUME Inv, [Next]_vars PROVE Inv'
  OBVIOUS
<1> USE NAssump, DAssump
<1>1. CASE W4
  BY <1>1 DEF W4, Inv, TypeOK, LoadsInBounds, Progress, Correct, Diff
<1>2. CASE W2
  BY <1>2 DEF W2, Inv, TypeOK, LoadsInBounds, Progress, Correct, Diff
<1>3. CASE W1
  <2>1. CASE N - off > 0
    <3>1. off = N - 1
      BY <1>3, <2>1 DEF W1, Inv, TypeOK, Progress
    <3>a. \A p \in D : p = off
      BY <3>1, <1>3 DEF W1, Inv, Progress, Diff, TypeOK
    <3>b. Diff(off, off + 1) <=> (\E p \in D : TRUE)
      BY <3>a, <3>1 DEF Diff
    <3>2. (~Diff(off, off + 1)) <=> D = {}
      BY <3>b
    <3> QED BY <1>3, <2>1, <3>1, <3>2 DEF W1, Inv, TypeOK, LoadsInBounds, Progress, Correct
  <2>2. CASE ~(N - off > 0)
    <3>1. off = N /\ res = TRUE /\ ~Diff(0, N)
      BY <1>3, <2>2 DEF W1, Inv, TypeOK, Progress
    <3>2. D = {}
      BY <3>1 DEF Diff
    <3> QED BY <1>3, <2>2, <3>1, <3>2 DEF W1, Inv, TypeOK, LoadsInBounds, Progress, Correct
  <2> QED BY <2>1, <2>2
<1>4. CASE UNCHANGED vars
  BY <1>4 DEF vars, Inv, TypeOK, LoadsInBounds, Progress, Correct, Diff
<1> QED BY <1>1, <1>2, <1>3, <1>4 DEF Next

THEOREM Safety == Spec => []Inv
  BY InitInv, NextInv, PTL DEF Spec
=============================================================================
