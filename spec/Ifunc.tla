------------------------------- MODULE Ifunc -------------------------------
(***************************************************************************)
(* Action-style specification of the x86-64 runtime dispatcher             *)
(* (`unsafe_ifunc!` in src/arch/x86_64/memchr.rs) under threads.           *)
(*                                                                         *)
(* Each of the dispatched routines owns a process-global                   *)
(*   static FN: AtomicPtr<()> = detect                                     *)
(* A call does  fun = FN.load(Relaxed); fun(args).  `detect` chooses the   *)
(* implementation the CPU supports, does FN.store(fun, Relaxed) and calls  *)
(* it.  Relaxed atomics are modelled by a per-location modification order  *)
(* `mo[r]` and a per-thread view `view[t][r]`: a load may return any value *)
(* of the modification order that is not older than the thread's view      *)
(* (coherence), so a racing thread may keep reading `detect` after another *)
(* thread's store.  One action per linearisation point of the code:        *)
(*   Load, Detect, Store, Direct (loaded an implementation), Invoke.       *)
(* `hist[t]` is the per-thread log of completed calls (the observation      *)
(* the trace validator binds to).                                          *)
(* What is cached is a FUNCTION (an implementation id), never anything     *)
(* that depends on the call's arguments; CacheWhat = "searcher" is the     *)
(* spec mutant in which the first call's needle-specific searcher is       *)
(* cached instead (used by the self-test: TLC must then find a violation). *)
(***************************************************************************)
EXTENDS Naturals, Sequences, FiniteSets, TLC

CONSTANTS Threads,      \* set of thread ids
          Routines,     \* set of dispatched routines (each has its own FN cell)
          Calls,        \* calls per thread
          Args,         \* set of abstract argument values (needle/haystack classes)
          Avail,        \* "avx2" | "sse2" | "fallback": what is_available() reports
          CacheWhat     \* "function" (the code) | "searcher" (spec mutant)

VARIABLES mo, view, pc, cur, left, hist

vars == <<mo, view, pc, cur, left, hist>>

Impls == {"avx2", "sse2", "fallback"}
Supported == CASE Avail = "avx2" -> {"avx2", "sse2", "fallback"}
               [] Avail = "sse2" -> {"sse2", "fallback"}
               [] Avail = "fallback" -> {"fallback"}
Chosen == Avail                                   \* detect picks the best supported implementation
\* the sequential meaning of routine r on argument a; every implementation computes it (C09)
Oracle(r, a) == <<r, a>>
\* a cached value is <<impl, bound>>; bound = "any" for a function pointer
Cached(impl, a) == IF CacheWhat = "function" THEN <<impl, "any">> ELSE <<impl, a>>
Apply(r, f, a) == IF f[2] = "any" THEN Oracle(r, a) ELSE Oracle(r, f[2])

Init ==
  /\ mo = [r \in Routines |-> << <<"detect", "any">> >>]
  /\ view = [t \in Threads |-> [r \in Routines |-> 1]]
  /\ pc = [t \in Threads |-> "idle"]
  /\ cur = [t \in Threads |-> [r |-> CHOOSE r \in Routines : TRUE, a |-> CHOOSE a \in Args : TRUE, f |-> <<"none", "any">>, detected |-> 0]]
  /\ left = [t \in Threads |-> Calls]
  /\ hist = [t \in Threads |-> <<>>]

\* fun = FN.load(Relaxed): any value not older than the thread's view of this location
Load(t) ==
  /\ pc[t] = "idle" /\ left[t] > 0
  /\ \E r \in Routines : \E a \in Args : \E i \in view[t][r]..Len(mo[r]) :
       /\ view' = [view EXCEPT ![t][r] = i]
       /\ cur' = [cur EXCEPT ![t] = [r |-> r, a |-> a, f |-> mo[r][i], detected |-> 0]]
  /\ pc' = [pc EXCEPT ![t] = "loaded"]
  /\ UNCHANGED <<mo, left, hist>>
\* the loaded pointer was `detect`: run CPU feature detection
Detect(t) ==
  /\ pc[t] = "loaded" /\ cur[t].f[1] = "detect"
  /\ cur' = [cur EXCEPT ![t].f = Cached(Chosen, cur[t].a), ![t].detected = 1]
  /\ pc' = [pc EXCEPT ![t] = "detected"]
  /\ UNCHANGED <<mo, view, left, hist>>
\* FN.store(fun, Relaxed)
Store(t) ==
  /\ pc[t] = "detected"
  /\ mo' = [mo EXCEPT ![cur[t].r] = Append(@, cur[t].f)]
  /\ view' = [view EXCEPT ![t][cur[t].r] = Len(mo[cur[t].r]) + 1]
  /\ pc' = [pc EXCEPT ![t] = "call"]
  /\ UNCHANGED <<cur, left, hist>>
\* the loaded pointer was an implementation
Direct(t) ==
  /\ pc[t] = "loaded" /\ cur[t].f[1] # "detect"
  /\ pc' = [pc EXCEPT ![t] = "call"]
  /\ UNCHANGED <<mo, view, cur, left, hist>>
\* fun(args)
Invoke(t) ==
  /\ pc[t] = "call"
  /\ hist' = [hist EXCEPT ![t] = Append(@, [t |-> t, r |-> cur[t].r, a |-> cur[t].a, impl |-> cur[t].f[1], ret |-> Apply(cur[t].r, cur[t].f, cur[t].a), detected |-> cur[t].detected])]
  /\ left' = [left EXCEPT ![t] = left[t] - 1]
  /\ pc' = [pc EXCEPT ![t] = "idle"]
  /\ UNCHANGED <<mo, view, cur>>

Next == \E t \in Threads : Load(t) \/ Detect(t) \/ Store(t) \/ Direct(t) \/ Invoke(t)
Spec == Init /\ [][Next]_vars
FairSpec == Spec /\ \A t \in Threads : WF_vars(Load(t) \/ Detect(t) \/ Store(t) \/ Direct(t) \/ Invoke(t))

-----------------------------------------------------------------------------
TypeOK == /\ \A r \in Routines : Len(mo[r]) >= 1
          /\ \A t \in Threads : \A r \in Routines : view[t][r] \in 1..Len(mo[r])
\* C15: every call returns what it would return in isolation
EveryReturnEqualsSequential == \A t \in Threads : \A i \in 1..Len(hist[t]) : hist[t][i].ret = Oracle(hist[t][i].r, hist[t][i].a)
\* only an implementation the CPU supports is ever invoked
OnlySupportedImplInvoked == \A t \in Threads : \A i \in 1..Len(hist[t]) : hist[t][i].impl \in Supported
\* every store writes the same value (the race is benign)
StoresIdempotent == \A r \in Routines : \A i \in 2..Len(mo[r]) : mo[r][i][1] = Chosen
DetectAtMostOncePerCall == \A t \in Threads : \A i \in 1..Len(hist[t]) : hist[t][i].detected \in {0, 1}
\* per-thread coherence: once a thread loaded an implementation for r (or stored one) it never runs detect for r again
NoRedetectAfterImpl ==
  \A t \in Threads : \A i, j \in 1..Len(hist[t]) :
     (i < j /\ hist[t][i].r = hist[t][j].r) => hist[t][j].detected = 0
\* liveness (checked under FairSpec without a state constraint)
EveryCallReturns == <>(\A t \in Threads : left[t] = 0)
=============================================================================
