------------------------------ MODULE MC_Memmem ------------------------------
(* Exhaustive instance of the meta searcher: all needles MinN..MaxN x all      *)
(* haystacks 0..MaxH over Alpha x every CPU-feature outcome x both prefilter   *)
(* settings x every ranker Alpha -> Ranks.  The initial state only fixes the   *)
(* configuration; the single step evaluates every search / traversal once (in  *)
(* a TLC worker thread) and stores the results in `out`, which the invariants  *)
(* inspect.                                                                    *)
EXTENDS Memmem, TLC, Json
CONSTANTS Alpha, MinN, MaxN, MaxH, Avails, Prefs, Ranks, Parts, Emit
VARIABLES n, h, cfg, out
Init == /\ n \in Seqs(Alpha, MinN, MaxN) /\ h \in Seqs(Alpha, 0, MaxH)
        /\ \E a \in Avails : \E p \in Prefs : \E r \in [Alpha -> Ranks] : cfg = [avail |-> a, prefilter |-> p, rank |-> r]
        /\ out = [done |-> FALSE]
F == MM_Finder(n, cfg)
FR == MM_FinderRev(n)
\* Parts selects which entry points a run evaluates ("find", "rfind", "iter", "riter"); the others get a neutral value.
NoR == MM_R(-3, PS_New, "skipped", 0, 0, 0, 0, FALSE)
NoIt == [seq |-> <<>>, ok |-> TRUE, cost |-> [cmps |-> 0, pre |-> 0, chunks |-> 0, hashes |-> 0, bad |-> FALSE]]
Has(x) == x \in Parts
Next == /\ ~out.done
        /\ out' = [done |-> TRUE,
                   find |-> IF Has("find") THEN MM_FinderFind(F, h) ELSE NoR,
                   top |-> IF Has("find") THEN MM_TopFind(h, n, cfg) ELSE NoR,
                   rfind |-> IF Has("rfind") THEN MM_RFind(FR, h) ELSE NoR,
                   rtop |-> IF Has("rfind") THEN MM_TopRFind(h, n) ELSE NoR,
                   it |-> IF Has("iter") THEN FI_All(F, h) ELSE NoIt,
                   rit |-> IF Has("riter") THEN FR_All(FR, h) ELSE NoIt,
                   pbad |-> (Has("find") /\ F.prep.bad) \/ (Has("rfind") /\ FR.prep.bad)]
        /\ UNCHANGED <<n, h, cfg>>
FindIsLeftmost == (out.done /\ Has("find")) => out.find.res = FindSub(h, n) /\ out.top.res = FindSub(h, n)
RFindIsRightmost == (out.done /\ Has("rfind")) => out.rfind.res = RFindSub(h, n) /\ out.rtop.res = RFindSub(h, n)
IterIsGreedy == (out.done /\ Has("iter")) => out.it.ok /\ out.it.seq = GreedyFwd(h, n)
RevIterIsGreedy == (out.done /\ Has("riter")) => out.rit.ok /\ out.rit.seq = GreedyRev(h, n)
EmptyNeedleEveryOffset == (out.done /\ Len(n) = 0) => /\ (Has("iter") => out.it.seq = [i \in 1..Len(h) + 1 |-> i - 1])
                                                       /\ (Has("riter") => out.rit.seq = [i \in 1..Len(h) + 1 |-> Len(h) + 1 - i])
NoPanic == out.done => ~out.find.bad /\ ~out.it.cost.bad /\ ~out.rfind.bad /\ ~out.rit.cost.bad /\ ~out.pbad
\* C13 at design level: total elementary steps of one search and of a whole traversal
WorkOf(c) == c.cmps + c.pre + c.chunks + c.hashes
LinearFind == (out.done /\ Has("find")) => WorkOf(out.find) <= 6 * Len(h) + 4 * Len(n) + 8
LinearIter == out.done => WorkOf(out.it.cost) <= 8 * Len(h) + 4 * Len(n) + 16
Canon == cfg.avail = "avx2" /\ cfg.prefilter = "auto" /\ \A x \in Alpha : cfg.rank[x] = 0
Vector == [m |-> "mm", n |-> n, h |-> h, find |-> FindSub(h, n), rfind |-> RFindSub(h, n),
           fwd |-> GreedyFwd(h, n), rev |-> GreedyRev(h, n), route |-> out.find.route]
EmitReplay == (Emit /\ out.done /\ Canon) => PrintT(<<"REPLAY", ToJson(Vector)>>)
=============================================================================
