//! Verification harness: replays TLC-generated behaviours into the real code
//! (S->I) and records executions of the real code for TLC validation (I->S).
mod backends;
mod miri_sample;
mod r_generic;
mod r_guard;
mod r_iseq;
mod r_iter;
mod r_mm;
mod r_pp;
mod r_route;
mod r_tw;
mod rec_cost;
mod rec_lib;
mod util;

use serde_json::Value;
use std::io::{BufRead, Write};
use util::*;

#[global_allocator]
static GLOBAL: util::Counting = util::Counting;

pub struct Args(Vec<String>);
impl Args {
    pub fn flag(&self, name: &str) -> bool {
        self.0.iter().any(|a| a == name)
    }
    pub fn val(&self, name: &str) -> Option<&str> {
        self.0.iter().position(|a| a == name).and_then(|i| self.0.get(i + 1)).map(|s| s.as_str())
    }
    pub fn num(&self, name: &str, d: u64) -> u64 {
        self.val(name).map(|s| s.parse().expect("numeric argument")).unwrap_or(d)
    }
}

pub fn read_ndjson(path: &str) -> Vec<Value> {
    let f = std::fs::File::open(path).unwrap_or_else(|e| panic!("open {path}: {e}"));
    let mut out = Vec::new();
    for line in std::io::BufReader::new(f).lines() {
        let line = line.unwrap();
        let line = line.trim();
        if line.is_empty() {
            continue;
        }
        out.push(serde_json::from_str(line).unwrap_or_else(|e| panic!("bad json line: {e}: {line}")));
    }
    out
}

fn main() {
    let args = Args(std::env::args().skip(1).collect());
    let cmd = args.0.get(0).map(|s| s.as_str()).unwrap_or("");
    let threads = args.num("--threads", 8) as usize;
    let seed = args.num("--seed", 0);
    quiet_panics();
    let rep = Report::default();
    match cmd {
        "replay-generic" => {
            let vs = read_ndjson(args.val("--in").expect("--in"));
            let o = r_generic::Opts {
                variants: args.num("--variants", 1) as usize,
                stretches: args.num("--stretches", 1) as usize,
                only_top: args.flag("--only-top"),
                scaled: !args.flag("--no-scaled"),
                seed,
            };
            // forked in chunks: the raw-pointer entry points can abort the process (failed debug precondition of a
            // pointer operation = non-unwinding panic) or fault; the crash is bisected down to one vector and reported
            let tmp = args.val("--tmp").unwrap_or("/tmp/verif-iso-generic").to_string();
            let crashes = run_isolated(vs.len(), 4000, threads, &tmp, &rep, &|r, rep| {
                let mut cnt = Counts::default();
                for i in r {
                    r_generic::replay_one(i, &vs[i], rep, &mut cnt, &o);
                    cnt.add("vectors", 1);
                }
                rep.merge_counts(&cnt.0);
            });
            for (i, st) in crashes {
                let sig = st & 0x7f;
                let class = if sig == 11 || sig == 7 { Class::Oob } else { Class::Panic };
                rep.finding(class, &format!("byte search: the process died with {} while executing this vector (an abort is a failed debug precondition / non-unwinding panic in the code under test)", describe_status(st)), serde_json::json!({"vector": vs[i]}));
            }
            for v in vs.iter().take(3) {
                rep.sample(v.clone());
            }
        }
        "replay-iseq" => {
            let vs = read_ndjson(args.val("--in").expect("--in"));
            let tmp = args.val("--tmp").unwrap_or("/tmp/verif-iso").to_string();
            let crashes = run_isolated(vs.len(), 2000, threads, &tmp, &rep, &|r, rep| {
                let sub: Vec<Value> = vs[r.clone()].to_vec();
                r_iseq::replay(&sub, rep, 1, seed.wrapping_add(r.start as u64));
            });
            for (i, st) in crashes {
                let sig = st & 0x7f;
                let class = if sig == 11 || sig == 7 { Class::Oob } else { Class::Panic };
                rep.finding(class, &format!("is_equal family: process died with {} (operands abut PROT_NONE pages)", describe_status(st)), serde_json::json!({"vector": vs[i]}));
            }
        }
        "replay-mm" => {
            let vs = read_ndjson(args.val("--in").expect("--in"));
            let o = r_mm::Opts {
                lifts: args.num("--lifts", 2) as usize,
                groups: r_mm::Groups::parse(args.val("--groups").unwrap_or("all")),
                seed,
                force: args.val("--force").unwrap_or("avx2").to_string(),
            };
            r_mm::replay(&vs, &rep, &o, threads);
        }
        "replay-pp" => {
            let vs = read_ndjson(args.val("--in").expect("--in"));
            r_pp::replay_pp(&vs, &rep, threads, seed);
        }
        "replay-pair" => {
            let vs = read_ndjson(args.val("--in").expect("--in"));
            r_pp::replay_pair(&vs, &rep, threads, seed);
        }
        "replay-obj" => {
            let vs = read_ndjson(args.val("--in").expect("--in"));
            let o = r_mm::Opts {
                lifts: args.num("--lifts", 2) as usize,
                groups: r_mm::Groups::parse("objects"),
                seed,
                force: args.val("--force").unwrap_or("avx2").to_string(),
            };
            r_mm::replay_obj(&vs, &rep, &o, threads);
        }
        "replay-alloc-bytes" => {
            let vs = read_ndjson(args.val("--in").expect("--in"));
            r_iter::alloc_probe(&vs, &rep, threads, seed);
        }
        "replay-guard" => {
            let vs = read_ndjson(args.val("--in").expect("--in"));
            let tmp = args.val("--tmp").unwrap_or("/tmp/verif-iso").to_string();
            r_guard::replay(&vs, &rep, threads, seed, &tmp, args.num("--lifts", 3) as usize);
        }
        "record-cost" => {
            let n = rec_cost::record(args.val("--trace").expect("--trace"), args.num("--max-log2", 16) as u32, seed, args.val("--force").unwrap_or("avx2"));
            rep.count("records", n);
        }
        "record-lib" => {
            let n = rec_lib::record(args.val("--trace").expect("--trace"), args.val("--family").unwrap_or("mixed"), args.num("--count", 1000) as usize, seed, args.val("--force").unwrap_or("avx2"), args.val("--kinds").unwrap_or(""), args.val("--group").unwrap_or("all"));
            rep.count("records", n);
        }
        "rerecord" => {
            rec_lib::rerecord(args.val("--in").expect("--in"), args.val("--trace").expect("--trace"));
            return;
        }
        "stress-prefilter-counter" => {
            // C14 probe: more than 2^29 prefilter calls in ONE search with the prefilter staying effective
            // (average skip >= 8 bytes): `MIN_SKIP_BYTES * skips()` is computed in u32.
            let calls = args.num("--calls", (1u64 << 29) + 4096) as usize;
            let needle: Vec<u8> = [b"XYb".to_vec(), vec![b'a'; 39]].concat();
            let f = memchr::memmem::Finder::new(&needle);
            println!("{:?}", f);
            println!("{:?}", memchr::arch::all::twoway::Finder::new(&needle));
            let unit = b"XYaXaaaaaa";
            let mut h = vec![0u8; calls * unit.len()];
            for (i, b) in h.iter_mut().enumerate() {
                *b = unit[i % unit.len()];
            }
            let t0 = std::time::Instant::now();
            memchr::verif::start(&[]);
            let r = guard(|| f.find(&h));
            let (_, t) = memchr::verif::stop();
            println!("result {:?} after {:?}; prefilter calls {} two-way steps {}", r, t0.elapsed(), t[memchr::verif::T_PRE], t[memchr::verif::T_TW]);
            return;
        }
        "record-iter" => {
            let n = rec_lib::record_iter(args.val("--trace").expect("--trace"), args.num("--count", 300) as usize, seed, args.val("--force").unwrap_or("avx2"));
            rep.count("records", n);
        }
        "record-obj" => {
            let n = rec_lib::record_obj(args.val("--trace").expect("--trace"), args.num("--count", 300) as usize, seed, args.val("--force").unwrap_or("avx2"));
            rep.count("records", n);
        }
        "record-pair" => {
            let (n, panics) = rec_lib::record_pair(args.val("--trace").expect("--trace"), args.num("--count", 200) as usize, seed);
            rep.count("records", n);
            for p in panics {
                rep.finding(Class::Panic, &p, serde_json::json!({}));
            }
        }
        "conc-child" => {
            rec_lib::conc_child(args.val("--trace").expect("--trace"), args.num("--threads", 4) as usize, seed, args.num("--rounds", 20) as usize);
            return;
        }
        "conc" => {
            let (n, fails) = rec_lib::conc(args.val("--trace").expect("--trace"), args.num("--procs", 20) as usize, seed, args.num("--rounds", 20) as usize, args.val("--force").unwrap_or("avx2"));
            rep.count("records", n);
            for f in fails {
                rep.finding(Class::Panic, &format!("concurrent child process failed: {f}"), serde_json::json!({}));
            }
        }
        "miri-sample" => {
            miri_sample::run(args.val("--in").expect("--in"), seed);
            return;
        }
        "replay-route" => {
            let vs = read_ndjson(args.val("--in").expect("--in"));
            r_route::replay(&vs, &rep, args.val("--force").unwrap_or("avx2"));
        }
        "replay-tw" => {
            let vs = read_ndjson(args.val("--in").expect("--in"));
            r_tw::replay(&vs, &rep, threads);
        }
        "replay-iter" => {
            let vs = read_ndjson(args.val("--in").expect("--in"));
            let o = r_iter::Opts {
                variants: args.num("--variants", 1) as usize,
                stretches: args.num("--stretches", 1) as usize,
                only_top: args.flag("--only-top"),
                seed,
            };
            r_iter::replay(&vs, &rep, &o, threads);
        }
        _ => {
            eprintln!("unknown command {cmd:?}");
            std::process::exit(2);
        }
    }
    let out = rep.to_json();
    let s = serde_json::to_string(&out).unwrap();
    match args.val("--out") {
        Some(p) => std::fs::write(p, s).unwrap(),
        None => {
            std::io::stdout().write_all(s.as_bytes()).unwrap();
            println!();
        }
    }
}
