------------------------------ MODULE MC_VecOps ------------------------------
(* VecOps' lemmas are ASSUMEs over all lane sets; TLC evaluates them at start-up. *)
EXTENDS VecOps
VARIABLE x
Init == x = 0
Next == FALSE /\ x' = x
=============================================================================
