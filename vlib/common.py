"""Shared driver machinery: TLC runs, harness builds, replay, evidence, verdicts."""
import fcntl
import json
import os
import re
import shutil
import subprocess
import sys
import threading
import time
from concurrent.futures import ThreadPoolExecutor

VERIF = os.path.dirname(os.path.dirname(os.path.abspath(__file__)))
REPO = os.environ.get("VERIF_REPO", "/repo")
SPEC = os.path.join(VERIF, "spec")
WORK = os.environ.get("VERIF_WORK") or os.path.join(VERIF, "work")
HARNESS = os.path.join(VERIF, "harness")


def _alt_harness():
    """When VERIF_REPO points at another checkout (self-test on scratch worktrees) the harness is built through a
    generated manifest whose path dependency is that checkout; sources are the same files (symlink)."""
    h = os.path.join(WORK, "harness-alt")
    if os.path.isdir(h):
        shutil.rmtree(h)
    os.makedirs(os.path.join(h, ".cargo"))
    man = open(os.path.join(VERIF, "harness", "Cargo.toml")).read().replace('path = "/repo"', 'path = "%s"' % REPO)
    open(os.path.join(h, "Cargo.toml"), "w").write(man)
    shutil.copy(os.path.join(VERIF, "harness", "Cargo.lock"), h)
    os.symlink(os.path.join(VERIF, "harness", "src"), os.path.join(h, "src"))
    open(os.path.join(h, ".cargo", "config.toml"), "w").write(open(os.path.join(VERIF, "harness", ".cargo", "config.toml")).read().replace('target-dir = "../work/target"', 'target-dir = "%s/target"' % WORK))
    return h


if REPO != "/repo":
    os.makedirs(WORK, exist_ok=True)
    HARNESS = _alt_harness()
EVID = os.environ.get("VERIF_EVIDENCE") or os.path.join(VERIF, "evidence")
KNOWN = os.path.join(VERIF, "known_findings.json")
NCPU = os.cpu_count() or 4


class ToolError(Exception):
    """Mandatory tooling failed (TLC error, build failure, timeout): exit 2."""


def log(*a):
    print(*a, file=sys.stderr, flush=True)


def tla_value(v):
    if isinstance(v, bool):
        return "TRUE" if v else "FALSE"
    if isinstance(v, int):
        return str(v)
    if isinstance(v, str):
        if v.startswith("mv:"):
            return v[3:]          # a TLC model value
        return '"%s"' % v
    if isinstance(v, (set, frozenset)):
        return "{" + ", ".join(tla_value(x) for x in sorted(v, key=lambda x: (str(type(x)), x))) + "}"
    if isinstance(v, (list, tuple)):
        return "<<" + ", ".join(tla_value(x) for x in v) + ">>"
    raise ValueError(v)


class Ctx:
    def __init__(self, prop, tier, seed):
        self.prop = prop
        self.tier = tier
        self.seed = seed
        self.t0 = time.time()
        self.dir = os.path.join(WORK, "run", prop)
        shutil.rmtree(self.dir, ignore_errors=True)
        os.makedirs(self.dir, exist_ok=True)
        self.replay_dir = os.path.join(WORK, "replay")
        os.makedirs(self.replay_dir, exist_ok=True)
        self.lock = threading.Lock()
        self.states = 0
        self.transitions = 0
        self.traces = 0
        self.evaluations = 0
        self.nontrivial = 0
        self.samples = []
        self.violations = []      # dicts: {sig, what, ctx}
        self.drifts = []
        self.notes = []           # findings for other properties, skipped vehicles...
        self.tlc_runs = []
        self.counters = {}
        self.arms = {}            # model -> set of arms seen
        self.assumptions = []
        self.vehicles_skipped = []
        self.quick = tier == "quick"

    def add_counters(self, d, prefix=""):
        with self.lock:
            for k, v in d.items():
                self.counters[prefix + k] = self.counters.get(prefix + k, 0) + v

    def sample(self, s):
        with self.lock:
            if len(self.samples) < 12:
                self.samples.append(s)

    def violation(self, sig, what, ctx=None):
        with self.lock:
            self.violations.append({"sig": sig, "what": what, "ctx": ctx})

    def drift(self, what, ctx=None):
        with self.lock:
            self.drifts.append({"what": what, "ctx": ctx})

    def note(self, what):
        with self.lock:
            if len(self.notes) < 50:
                self.notes.append(what)

    def elapsed(self):
        return time.time() - self.t0


_lock_fd = None


def take_lock():
    """Checks of different properties may run concurrently: every property has its own run directory, replay files and
    evidence file. Only the build steps that (re)create shared directories are serialised (build_lock)."""
    os.makedirs(WORK, exist_ok=True)


class build_lock:
    """flock around steps that write shared build inputs/outputs (cargo target dirs lock themselves, but the simd128 copy
    and the Miri warm-up builds are recreated in place)."""
    def __enter__(self):
        os.makedirs(WORK, exist_ok=True)
        self.fd = open(os.path.join(WORK, ".build.lock"), "w")
        fcntl.flock(self.fd, fcntl.LOCK_EX)
        return self

    def __exit__(self, *a):
        fcntl.flock(self.fd, fcntl.LOCK_UN)
        self.fd.close()


# --------------------------------------------------------------------------
# TLC

STATS_RE = re.compile(r"(\d+) states generated, (\d+) distinct states found")


def run_tlc(ctx, module, constants, invariants, tag, emit_to=None, workers=4, timeout=900,
            init="Init", next_="Next", extra_cfg="", simulate=None, env_extra=None, xmx="4g",
            postcondition=None, spec_dir=SPEC, specification=None, properties=()):
    """Run TLC on spec/<module>.tla with a generated cfg. Returns a dict with
    states, distinct, vectors (path or None), seconds. Raises ToolError when the
    model itself fails (invariant violated, parse error, timeout): that is
    independent of the code under test."""
    rdir = os.path.join(ctx.dir, "tlc", tag)
    os.makedirs(rdir, exist_ok=True)
    cfg = ["CONSTANTS"]
    for k, v in constants.items():
        cfg.append(" %s = %s" % (k, tla_value(v)))
    if specification:
        cfg.append("SPECIFICATION %s" % specification)
    else:
        cfg.append("INIT %s" % init)
        cfg.append("NEXT %s" % next_)
    for pr in properties:
        cfg.append("PROPERTY %s" % pr)
    for i in invariants:
        cfg.append("INVARIANT %s" % i)
    if postcondition:
        cfg.append("POSTCONDITION %s" % postcondition)
    cfg.append("CHECK_DEADLOCK FALSE")
    if extra_cfg:
        cfg.append(extra_cfg)
    cfg_path = os.path.join(rdir, "%s.cfg" % module)
    with open(cfg_path, "w") as f:
        f.write("\n".join(cfg) + "\n")
    if not getattr(ctx, "quick", True):
        timeout = timeout * 4       # thorough tier: same margin as for the harness
    cmd = ["tlc", "-workers", str(workers), "-metadir", os.path.join(rdir, "meta"), "-cleanup",
           "-noGenerateSpecTE", "-config", cfg_path]
    if simulate:
        cmd += ["-simulate", simulate]
    cmd.append(os.path.join(spec_dir, module + ".tla"))
    env = dict(os.environ)
    jtmp = os.path.join(rdir, "jtmp")      # TLC leaves an (empty) tlc-<n> directory in java.io.tmpdir on every run: keep it out of /tmp
    os.makedirs(jtmp, exist_ok=True)
    env["JAVA_TOOL_OPTIONS"] = "-Xss512m -Xmx%s -Djava.io.tmpdir=%s" % (xmx, jtmp)
    if env_extra:
        env.update(env_extra)
    t0 = time.time()
    out_path = os.path.join(rdir, "out.txt")
    vec_path = emit_to
    nvec = 0
    tagged = []
    with open(out_path, "w") as out:
        p = subprocess.Popen(["timeout", str(timeout)] + cmd, stdout=subprocess.PIPE, stderr=subprocess.STDOUT,
                             cwd=spec_dir, env=env, text=True, errors="replace")
        vf = open(vec_path, "w") if vec_path else None
        def logical_lines(stream):
            """TLC's pretty printer wraps a printed tuple that is wider than 80 columns over several lines
            ('<< "TAG",' / '   1,' / ... / '   2 >>'); join such a tuple back into one '<<"TAG", 1, ..., 2>>' line."""
            pending = None
            for raw in stream:
                if pending is not None:
                    pending.append(raw.strip())
                    if raw.rstrip().endswith(">>"):
                        j = " ".join(pending)
                        j = "<<" + j[2:].lstrip()
                        if j.endswith(" >>"):
                            j = j[:-3] + ">>"
                        pending = None
                        yield j + "\n"
                    continue
                if raw.startswith('<< "'):
                    if raw.rstrip().endswith(">>"):
                        j = "<<" + raw.rstrip()[2:].lstrip()
                        if j.endswith(" >>"):
                            j = j[:-3] + ">>"
                        yield j + "\n"
                    else:
                        pending = [raw.strip()]
                    continue
                yield raw
            if pending is not None:
                yield " ".join(pending) + "\n"

        for line in logical_lines(p.stdout):
            if line.startswith('<<"REPLAY", "'):
                if vf:
                    body = line.rstrip("\n")[len('<<"REPLAY", "'):-len('">>')]
                    vf.write(body.replace('\\"', '"').replace("\\\\", "\\") + "\n")
                    nvec += 1
            elif line.startswith('<<"') and not line.startswith('<<"REPLAY'):
                tagged.append(line.rstrip("\n"))
                out.write(line)
            else:
                out.write(line)
        p.wait()
        if vf:
            vf.close()
    secs = time.time() - t0
    text = open(out_path).read()
    m = None
    for m in STATS_RE.finditer(text):
        pass
    gen = int(m.group(1)) if m else 0
    dist = int(m.group(2)) if m else 0
    res = {"module": module, "tag": tag, "constants": {k: (sorted(v, key=str) if isinstance(v, (set, frozenset)) else v) for k, v in constants.items()},
           "states_generated": gen, "distinct_states": dist, "vectors": nvec, "seconds": round(secs, 2),
           "exit": p.returncode, "tagged": tagged}
    if p.returncode == 124:
        raise ToolError("TLC timeout after %ss on %s (%s)" % (timeout, module, tag))
    ok = p.returncode == 0 and "Error:" not in text and (simulate or "Model checking completed. No error has been found." in text)
    if simulate and p.returncode == 0:
        ok = "Error:" not in text
    if not ok:
        tail = "\n".join(text.splitlines()[-40:])
        first = [l for l in text.splitlines() if l.startswith("Error:")][:2]
        raise ToolError("TLC failed on %s (%s), exit %s; the MODEL (not the code) is in error:\n%s\n...\n%s" % (module, tag, p.returncode, "\n".join(first), tail))
    with ctx.lock:
        ctx.states += dist
        ctx.transitions += gen
        ctx.tlc_runs.append({k: res[k] for k in ("module", "tag", "constants", "states_generated", "distinct_states", "vectors", "seconds")})
    res["vec_path"] = vec_path
    res["out_path"] = out_path
    return res


def parallel(jobs, max_workers=None):
    """Run callables concurrently; re-raise the first exception."""
    if not jobs:
        return []
    with ThreadPoolExecutor(max_workers=max_workers or len(jobs)) as ex:
        futs = [ex.submit(j) for j in jobs]
        return [f.result() for f in futs]


# --------------------------------------------------------------------------
# harness

_built = {}
BASE_RUSTFLAGS = ["--cfg", "memchr_verif", "--cfg", "verif_x86", "--check-cfg", "cfg(memchr_verif)", "--check-cfg", "cfg(verif_wasm)", "--check-cfg", "cfg(verif_x86)"]


def build_simd128():
    """The simd128 vehicle: cfg-rewritten copy of /repo's current src + emulated intrinsics (optional vehicle)."""
    if "simd128" in _built:
        return _built["simd128"]
    with build_lock():
        return _build_simd128_locked()


def _build_simd128_locked():
    p = subprocess.run([os.path.join(VERIF, "bin", "mk_simd128")], stdout=subprocess.PIPE, stderr=subprocess.STDOUT, text=True, env=dict(os.environ, VERIF_WORK=WORK))
    if p.returncode != 0:
        raise ToolError("mk_simd128 failed: " + p.stdout[-2000:])
    env = dict(os.environ)
    env["CARGO_NET_OFFLINE"] = "true"
    env["CARGO_TARGET_DIR"] = os.path.join(WORK, "target-simd128")
    env["RUSTFLAGS"] = "--cfg memchr_verif --cfg verif_wasm --check-cfg cfg(memchr_verif) --check-cfg cfg(verif_wasm) --check-cfg cfg(verif_x86) --check-cfg cfg(verif_never)"
    t0 = time.time()
    p = subprocess.run(["cargo", "build", "--offline", "--quiet"], cwd=os.path.join(WORK, "simd128", "harness"), env=env,
                       stdout=subprocess.PIPE, stderr=subprocess.STDOUT, text=True)
    if p.returncode != 0:
        raise ToolError("simd128 vehicle build failed:\n" + p.stdout[-3000:])
    log("[build] simd128 vehicle %.1fs" % (time.time() - t0))
    _built["simd128"] = os.path.join(WORK, "target-simd128", "debug", "verif-harness")
    return _built["simd128"]


def build_harness(profile="dev", features=None, rustflags_extra=None, target=None):
    """cargo build of the harness against /repo's working tree (path dependency),
    hooks on. Returns the binary path."""
    key = (profile, tuple(features or ()) if features is not None else None, tuple(rustflags_extra or ()), target)
    if key in _built:
        return _built[key]
    cmd = ["cargo", "build", "--offline", "--quiet"]
    if profile == "release":
        cmd.append("--release")
    if features is not None:
        cmd += ["--no-default-features"]
        if features:
            cmd += ["--features", ",".join(features)]
    env = dict(os.environ)
    env["CARGO_NET_OFFLINE"] = "true"
    tdir = os.path.join(WORK, "target")
    if features is not None or rustflags_extra:
        tag = "-".join(["t"] + list(features or []) + [re.sub(r"\W+", "_", x) for x in (rustflags_extra or [])])
        tdir = os.path.join(WORK, "target-" + tag)
    env["CARGO_TARGET_DIR"] = tdir
    if rustflags_extra:
        env["RUSTFLAGS"] = " ".join(BASE_RUSTFLAGS + list(rustflags_extra))
    t0 = time.time()
    with build_lock():
        p = subprocess.run(cmd, cwd=HARNESS, env=env, stdout=subprocess.PIPE, stderr=subprocess.STDOUT, text=True)
    if p.returncode != 0:
        raise ToolError("harness build failed (%s):\n%s" % (" ".join(cmd), p.stdout[-4000:]))
    path = os.path.join(tdir, "release" if profile == "release" else "debug", "verif-harness")
    log("[build] %s %.1fs" % (key, time.time() - t0))
    _built[key] = path
    return path


def run_harness(ctx, binpath, args, tag, env_extra=None, timeout=1800, allow_signal=False):
    """Run the harness; returns (report dict or None, returncode)."""
    outp = os.path.join(ctx.dir, "h_%s.json" % tag)
    env = dict(os.environ)
    if env_extra:
        env.update(env_extra)
    cmd = [binpath] + [str(a) for a in args] + ["--out", outp, "--seed", str(ctx.seed)]
    if not getattr(ctx, "quick", True):
        # thorough tier: the vector files are 10-50x larger and the machine may be shared; a timeout is a tool error
        # (exit 2), so leave a wide margin (a thorough replay once needed more than 30 min under load)
        timeout = max(timeout, 4 * 3600)
    p = subprocess.run(["timeout", str(timeout)] + cmd, env=env, stdout=subprocess.PIPE, stderr=subprocess.PIPE, text=True)
    if p.returncode != 0:
        if allow_signal:
            return None, p.returncode, p.stderr
        if p.returncode == 124:
            raise ToolError("harness timeout: %s" % " ".join(cmd))
        return None, p.returncode, p.stderr
    return json.load(open(outp)), 0, p.stderr


# --------------------------------------------------------------------------
# verdicts and evidence

def load_known():
    try:
        return json.load(open(KNOWN))
    except FileNotFoundError:
        return {"findings": [], "fixed": []}


def save_replay(ctx, name, obj):
    path = os.path.join(ctx.replay_dir, "%s_%s.json" % (ctx.prop, name))
    with open(path, "w") as f:
        json.dump(obj, f, indent=1)
    return path


def absorb_report(ctx, rep, verdict_classes, tag):
    """Fold a harness report into the context. Findings whose class is in
    verdict_classes are violations of ctx.prop; 'drift' is conformance drift;
    other classes are noted (they belong to another property's check)."""
    if rep is None:
        return
    ctx.add_counters(rep.get("counters", {}), prefix=tag + ".")
    for s in rep.get("samples", [])[:3]:
        ctx.sample({"from": tag, "case": s})
    fc = rep.get("finding_counts", {})
    for cls, items in rep.get("findings", {}).items():
        if cls == "drift":
            for it in items[:5]:
                ctx.drift("%s: %s" % (tag, it["what"]), it.get("ctx"))
            ctx.add_counters({"drift_findings": fc.get(cls, len(items))})
        elif cls in verdict_classes:
            for it in items:
                ctx.violation("%s:%s:%s" % (tag, cls, it["what"]), it["what"], it.get("ctx"))
        else:
            ctx.note("%s: %d finding(s) of class '%s' (decided by another property's check), e.g. %s" % (tag, fc.get(cls, len(items)), cls, items[0]["what"]))


def finish(ctx, level, rule, extra_cov=None, technique=None):
    known = load_known()
    kf = [k for k in known.get("findings", []) if k.get("property") == ctx.prop]
    real = []
    known_hit = {}
    for v in ctx.violations:
        hit = None
        for k in kf:
            if re.search(k["sig_regex"], v["sig"]):
                hit = k
                break
        if hit:
            known_hit.setdefault(hit["id"], hit)
        else:
            real.append(v)
    for k in known_hit.values():
        print("KNOWN-FINDING: property=%s %s" % (ctx.prop, k["what"]))
    for d in ctx.drifts[:10]:
        print("DRIFT property=%s %s" % (ctx.prop, d["what"]))
    # group violations by signature prefix; one replay file per distinct what (capped)
    printed = 0
    seen = set()
    for v in real:
        key = v["what"]
        if key in seen:
            continue
        seen.add(key)
        if printed < 10:
            path = save_replay(ctx, "v%d" % printed, {"property": ctx.prop, "tier": ctx.tier, "seed": ctx.seed, "what": v["what"], "sig": v["sig"], "ctx": v["ctx"]})
            print("VIOLATION property=%s replay=%s" % (ctx.prop, path))
            print("  " + v["what"][:300])
            printed += 1
    cov = {
        "states": ctx.states,
        "transitions": ctx.transitions,
        "traces_validated_against_impl": ctx.traces,
        "samples": ctx.samples[:12] or [{"note": "no samples"}],
        "evaluations": ctx.evaluations,
        "distinct_nontrivial": ctx.nontrivial,
        "rule": rule,
        "tlc_runs": ctx.tlc_runs,
        "counters": ctx.counters,
        "model_arms_covered": {k: sorted(v) for k, v in ctx.arms.items()},
        "conformance_ok": len(ctx.drifts) == 0,
        "drift": ctx.drifts[:10],
        "notes": ctx.notes,
        "vehicles_skipped": ctx.vehicles_skipped,
        "known_findings_matched": sorted(known_hit.keys()),
    }
    if extra_cov:
        cov.update(extra_cov)
    ev = {
        "property_id": ctx.prop,
        "tier": ctx.tier,
        "seed": ctx.seed,
        "level": level,
        "coverage": cov,
        "assumptions": ctx.assumptions,
        "wall_s": round(ctx.elapsed(), 2),
        "violations": len(real),
    }
    if technique:
        ev["technique"] = technique
    os.makedirs(EVID, exist_ok=True)
    tmp = os.path.join(EVID, ctx.prop + ".json.tmp")
    with open(tmp, "w") as f:
        json.dump(ev, f, indent=1)
    os.replace(tmp, os.path.join(EVID, ctx.prop + ".json"))
    log("[%s] %s tier: states=%d traces=%d evaluations=%d violations=%d drifts=%d wall=%.1fs" % (
        ctx.prop, ctx.tier, ctx.states, ctx.traces, ctx.evaluations, len(real), len(ctx.drifts), ctx.elapsed()))
    return 1 if real else 0


def read_vectors(path):
    out = []
    with open(path) as f:
        for line in f:
            line = line.strip()
            if line:
                out.append(json.loads(line))
    return out


def collect_arms(ctx, model, vec_path, key="arms"):
    """Union of L-model arms exercised by the emitted behaviours; also counts
    non-trivial vectors (expected result is a match / non-zero)."""
    arms = set()
    n = 0
    nontriv = 0
    with open(vec_path) as f:
        for line in f:
            if not line.strip():
                continue
            v = json.loads(line)
            n += 1
            for a in v.get(key, []):
                arms.add(a)
            r = v.get("res", 0)
            if (isinstance(r, int) and r > 0) or (isinstance(r, list) and r):
                nontriv += 1
    with ctx.lock:
        ctx.arms.setdefault(model, set()).update(arms)
    return n, nontriv


def require_arms(ctx, model, required):
    """Anti-vacuity: depends only on the spec and its constants, never on the code."""
    missing = set(required) - ctx.arms.get(model, set())
    if missing:
        raise ToolError("model-coverage hole in %s: arms never taken: %s" % (model, sorted(missing)))


def cat_files(paths, out):
    with open(out, "w") as o:
        for p in paths:
            with open(p) as f:
                shutil.copyfileobj(f, o)
    return out


# --------------------------------------------------------------------------
# I->S: trace validation

def split_trace(path, outdir, max_records=8000):
    """ndJsonDeserialize materialises the whole file: shard into files of <= max_records."""
    os.makedirs(outdir, exist_ok=True)
    parts = []
    cur = None
    n = 0
    with open(path) as f:
        for line in f:
            if not line.strip():
                continue
            if cur is None or n >= max_records:
                if cur:
                    cur.close()
                pp = os.path.join(outdir, "part%03d.ndjson" % len(parts))
                parts.append(pp)
                cur = open(pp, "w")
                n = 0
            cur.write(line)
            n += 1
    if cur:
        cur.close()
    return parts


TAGGED_RE = re.compile(r'^<<"(VIOLATION|SUMMARY|DRIFT)"')


def parse_tla_tuple(line):
    """<<"VIOLATION", 3, "x", 7>> -> ["VIOLATION", 3, "x", 7] (flat tuples of ints/strings only)."""
    body = line.strip()
    body = body.replace("<<", "[").replace(">>", "]")
    body = body.replace("TRUE", "true").replace("FALSE", "false")
    try:
        return json.loads(body)
    except Exception:
        return [line.strip()]


def validate_trace(ctx, module, trace_path, constants, tag, timeout=900, max_records=8000, par=8):
    """Run the trace spec on every shard of the trace (one short-lived single-worker TLC per shard).
    Returns (records, list of (shard_path, parsed VIOLATION tuples), summaries)."""
    parts = split_trace(trace_path, os.path.join(ctx.dir, "trace_" + tag), max_records)
    viol = []
    summ = []
    total = [0]

    def mk(i, pp):
        def job():
            r = run_tlc(ctx, module, constants, ["Summary"], "%s_%03d" % (tag, i), workers=1, timeout=timeout,
                        env_extra={"TRACE": pp}, postcondition="AllConsumed", xmx="3g")
            nrec = sum(1 for _ in open(pp))
            for t in r["tagged"]:
                tup = parse_tla_tuple(t)
                if tup and tup[0] == "VIOLATION":
                    viol.append((pp, tup))
                elif tup and tup[0] == "SUMMARY":
                    summ.append(tup)
                elif tup and tup[0] == "DRIFT":
                    ctx.drift("%s: recorded execution differs from the L-model at record %s (%s)" % (tag, tup[1], tup[2:]))
            with ctx.lock:
                total[0] += nrec
        return job

    parallel([mk(i, pp) for i, pp in enumerate(parts)], max_workers=par)
    with ctx.lock:
        ctx.traces += total[0]
    return total[0], viol, summ


def record_at(path, lineno):
    with open(path) as f:
        for i, line in enumerate(f, 1):
            if i == lineno:
                return json.loads(line)
    return None
