"""Optional vehicles: foreign-architecture executions of the real code under Miri (placeholder until built)."""
from .common import ToolError


def run(ctx, vecs, classes, executed):
    raise ToolError("Miri vehicles not built yet")
