----------------------------- MODULE MC_SubOracle -----------------------------
(* Emits the P-layer meaning (leftmost / rightmost occurrence, greedy forward   *)
(* and reverse match sequences) of every (needle, haystack) pair over Alpha     *)
(* within the bounds, as REPLAY vectors for the S->I direction, and checks the  *)
(* lemmas that tie the oracles together and justify lifting:                    *)
(*  - mirror symmetry between FindSub and RFindSub,                             *)
(*  - the greedy sequences start with FindSub / RFindSub,                       *)
(*  - LiftLemma: under synchronising block substitution a -> pad^q a pad^(s-1-q), *)
(*    pl / pr pad bytes of padding, every oracle maps through i -> pl + s*i.    *)
(*  - TruncLemma: oracles of prefixes / suffixes of the haystack.               *)
EXTENDS Bytes, TLC, Json
CONSTANTS Alpha, MinN, MaxN, MaxH, Scales, CheckLift, Emit,
          Hole,     \* FALSE: haystacks over Alpha; TRUE: one position of the haystack is replaced by HoleSym
          NearMiss  \* TRUE: the near-miss family below instead of all (needle, haystack) pairs
HoleSym == 2
Pads == {<<0, 0>>, <<2, 1>>, <<0, 3>>}
VARIABLES n, h, done
\* the invariants are evaluated on the successor state (done = TRUE) so that TLC's workers share the load
\* Near-miss family (remembered-prefix / prefilter interplay of Two-Way): periodic needles u^k u[..r] of length
\* MinN..MaxN; haystack = (needle with one byte changed, first d bytes dropped) ++ gap ++ (needle with one byte
\* changed) ++ optional real occurrence.  MaxH is not used by this family.
RECURSIVE Rep(_, _)
Rep(u, len) == IF len <= Len(u) THEN SubSeq(u, 1, len) ELSE u \o Rep(u, len - Len(u))
NearMissInit ==
  \E u \in Seqs(Alpha, 2, 4) : \E L \in MinN..MaxN :
    /\ L > Len(u)
    /\ n = Rep(u, L)
    /\ \E i \in 1..L : \E x \in Alpha : \E d \in {0, 1, L \div 2} : \E g \in 0..2 : \E j \in 1..L : \E y \in Alpha : \E t \in BOOLEAN :
         /\ x # n[i] /\ y # n[j]
         /\ h = SubSeq([n EXCEPT ![i] = x], d + 1, L) \o [k \in 1..g |-> x] \o [n EXCEPT ![j] = y] \o (IF t THEN n ELSE <<>>)
Init == /\ IF NearMiss THEN NearMissInit
           ELSE /\ n \in Seqs(Alpha, MinN, MaxN)
                /\ \E hb \in Seqs(Alpha, 0, MaxH) :
                     IF ~Hole THEN h = hb
                     ELSE \E p \in 1..Len(hb) : h = [hb EXCEPT ![p] = HoleSym]
        /\ done = FALSE
Next == ~done /\ done' = TRUE /\ UNCHANGED <<n, h>>
Pad == 99                                     \* a symbol outside Alpha
\* block substitution a -> pad^q a pad^(s-1-q): q = 0 puts the symbol first, q = s-1 last (lifted needles then end with
\* a real symbol), q = s \div 2 in the middle
RECURSIVE Phi(_, _, _)
Phi(x, s, q) == IF Len(x) = 0 THEN <<>> ELSE [i \in 1..q |-> Pad] \o <<x[1]>> \o [i \in 1..s - 1 - q |-> Pad] \o Phi(Tail(x), s, q)
LiftHay(x, s, q, pl, pr) == [i \in 1..pl |-> Pad] \o Phi(x, s, q) \o [i \in 1..pr |-> Pad]
MapI(i, s, pl) == IF i < 0 THEN -1 ELSE pl + s * i
MapSeq(q, s, pl) == [k \in 1..Len(q) |-> pl + s * q[k]]
Mirror == done => RFindSub(h, n) = (IF FindSub(Reverse(h), Reverse(n)) < 0 THEN -1 ELSE Len(h) - Len(n) - FindSub(Reverse(h), Reverse(n)))
GreedyHeads == done =>
               /\ (FindSub(h, n) >= 0 <=> Len(GreedyFwd(h, n)) > 0) /\ (FindSub(h, n) >= 0 => GreedyFwd(h, n)[1] = FindSub(h, n))
               /\ (RFindSub(h, n) >= 0 <=> Len(GreedyRev(h, n)) > 0) /\ (RFindSub(h, n) >= 0 => GreedyRev(h, n)[1] = RFindSub(h, n))
LiftLemma == (done /\ CheckLift /\ Len(n) > 0) =>
  \A s \in Scales : \A p \in Pads : \A q \in {0, s - 1, s \div 2} :
     LET H == LiftHay(h, s, q, p[1], p[2])  N == Phi(n, s, q) IN
     /\ FindSub(H, N) = MapI(FindSub(h, n), s, p[1])
     /\ RFindSub(H, N) = MapI(RFindSub(h, n), s, p[1])
     /\ GreedyFwd(H, N) = MapSeq(GreedyFwd(h, n), s, p[1])
     /\ GreedyRev(H, N) = MapSeq(GreedyRev(h, n), s, p[1])
\* ScanLemma: the set-based oracles of Bytes coincide with their reading as left-to-right / right-to-left scans
ScanLemma == done => /\ FindSub(h, n) = FindFrom(h, n, 0)
                     /\ RFindSub(h, n) = RFindFrom(h, n, Len(h) - Len(n))
                     /\ GreedyFwd(h, n) = GreedyFwdFrom(h, n, 0)
                     /\ GreedyRev(h, n) = GreedyRevFrom(h, n, Len(h))
\* TruncLemma: the leftmost occurrence in a prefix of the haystack (the rightmost in a suffix) follows from the
\* full-haystack oracle -- used by the slow vehicles to probe boundary lengths without new oracle runs.
TruncLemma == done =>
  \A L \in 0..Len(h) :
     LET f == FindSub(h, n)  r == RFindSub(h, n)  cut == Len(h) - L IN
     /\ FindSub(SubSeq(h, 1, L), n) = (IF f >= 0 /\ f + Len(n) <= L THEN f ELSE -1)
     /\ RFindSub(SubSeq(h, cut + 1, Len(h)), n) = (IF r >= 0 /\ r >= cut THEN r - cut ELSE -1)
Vector == [m |-> "mm", n |-> n, h |-> h, find |-> FindSub(h, n), rfind |-> RFindSub(h, n), fwd |-> GreedyFwd(h, n), rev |-> GreedyRev(h, n)]
EmitReplay == (Emit /\ done) => PrintT(<<"REPLAY", ToJson(Vector)>>)
=============================================================================
