------------------------------ MODULE Trace_Lib ------------------------------
(***************************************************************************)
(* I->S validator: recorded executions of the real library are checked     *)
(* against the P-layer.  One record = one input (needle bytes n, haystack  *)
(* bytes h) with the list of observations made on it by the recorder:      *)
(*   obs[k] = [e |-> entry point, t |-> kind, r |-> result, al |-> heap    *)
(*             allocations during the call, own |-> owning call?]          *)
(* kinds: byte search  "first" "last" "count"   (n = the 1..3 needle bytes)*)
(*        substring    "find" "rfind" "fwd" "rev" (r of fwd/rev = sequence)*)
(*        comparison   "eq" "prefix" "suffix"     (r = 0/1)                *)
(* Every observation is a completed public call; the abstract state of the *)
(* library between calls is empty (finders are immutable, searches are     *)
(* pure), so each record is validated independently and the spec's `Next`  *)
(* consumes exactly one record.  A failed comparison is reported and       *)
(* counted -- TLC getting stuck is never the signal; the postcondition     *)
(* only checks that every record was consumed.                             *)
(* Lib action classification for C17: no call allocates except the owning  *)
(* conversions (own = TRUE).                                               *)
(***************************************************************************)
EXTENDS Bytes, TLC, Json, IOUtils

Rec == ndJsonDeserialize(IOEnv.TRACE)

VARIABLES l, nviol, nobs

NeedleSet(n) == {n[i] : i \in 1..Len(n)}

Expected(t, n, h) ==
  CASE t = "first" -> FirstMatch(h, NeedleSet(n))
    [] t = "last" -> LastMatch(h, NeedleSet(n))
    [] t = "count" -> CountMatch(h, NeedleSet(n))
    [] t = "find" -> FindSub(h, n)
    [] t = "rfind" -> RFindSub(h, n)
    [] t = "fwd" -> GreedyFwd(h, n)
    [] t = "rev" -> GreedyRev(h, n)
    [] t = "eq" -> IF IsEqualSeq(h, n) THEN 1 ELSE 0
    [] t = "prefix" -> IF IsPrefixSeq(h, n) THEN 1 ELSE 0
    [] t = "suffix" -> IF IsSuffixSeq(h, n) THEN 1 ELSE 0

\* the kinds present in a record, each oracle evaluated once
Kinds(r) == {r.obs[k].t : k \in 1..Len(r.obs)}
BadObs(r) ==
  LET exp == [t \in Kinds(r) |-> Expected(t, r.n, r.h)] IN
  {k \in 1..Len(r.obs) : r.obs[k].r # exp[r.obs[k].t]}
BadAlloc(r) == {k \in 1..Len(r.obs) : r.obs[k].al # 0 /\ ~r.obs[k].own}

Init == l = 1 /\ nviol = 0 /\ nobs = 0
Next == /\ l <= Len(Rec)
        /\ LET r == Rec[l]
               bad == BadObs(r)
               bal == BadAlloc(r) IN
           /\ nviol' = nviol + Cardinality(bad) + Cardinality(bal)
           /\ nobs' = nobs + Len(r.obs)
           /\ IF bad = {} THEN TRUE ELSE PrintT(<<"VIOLATION", l, "result", r.obs[SetMin(bad)].e, Cardinality(bad)>>)
           /\ IF bal = {} THEN TRUE ELSE PrintT(<<"VIOLATION", l, "alloc", r.obs[SetMin(bal)].e, Cardinality(bal)>>)
        /\ l' = l + 1
AllConsumed == TLCGet("stats").diameter - 1 = Len(Rec)
Summary == (l = Len(Rec) + 1) => PrintT(<<"SUMMARY", Len(Rec), nviol, nobs>>)
=============================================================================
