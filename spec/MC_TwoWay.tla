------------------------------ MODULE MC_TwoWay ------------------------------
(* Exhaustive instance of Two-Way without prefilter, forward and reverse:      *)
(* all needles MinN..MaxN x all haystacks 0..MaxH over Alpha, stepping through *)
(* every outer-loop iteration so that the invariants hold in every             *)
(* intermediate state.                                                         *)
EXTENDS TwoWay, TLC, Json
CONSTANTS Alpha, MinN, MaxN, MaxH, Emit
VARIABLES n, h, fs, rs
vars == <<n, h, fs, rs>>
PF == TW_PrepFwd(n)
PR == TW_PrepRev(n)
Init == /\ n \in Seqs(Alpha, MinN, MaxN) /\ h \in Seqs(Alpha, 0, MaxH)
        /\ fs = TW_Init(PS_New) /\ rs = TW_RInit(h, n)
Next == /\ (~fs.done \/ ~rs.done)
        /\ fs' = IF fs.done THEN fs ELSE TW_FwdIter(n, PF, TW_NoPre, h, fs)
        /\ rs' = IF rs.done THEN rs ELSE TW_RevIter(n, PR, h, rs)
        /\ UNCHANGED <<n, h>>
Done == fs.done /\ rs.done
FwdOK == fs.done => fs.res = FindSub(h, n)
RevOK == rs.done => rs.res = RFindSub(h, n)
NoUnderflow == ~fs.bad /\ ~rs.bad /\ ~PF.bad /\ ~PR.bad
\* while searching, no occurrence starts before pos (forward) / ends after pos (reverse)
FwdNoSkip == ~fs.done => \A i \in 0..fs.pos - 1 : ~Occurs(h, n, i)
RevNoSkip == ~rs.done => \A i \in 0..Len(h) : (i + Len(n) > rs.pos) => ~Occurs(h, n, i)
PrepLinear == PF.steps <= 4 * Len(n) /\ PR.steps <= 4 * Len(n)
SearchLinear == fs.cmps <= 2 * Len(h) + 2 * Len(n) /\ rs.cmps <= 2 * Len(h) + 2 * Len(n)
Vector == [m |-> "tw", modk |-> MODK, n |-> n, h |-> h, find |-> FindSub(h, n), rfind |-> RFindSub(h, n),
           fcrit |-> PF.crit, fsmall |-> PF.small, fval |-> PF.val, rcrit |-> PR.crit, rsmall |-> PR.small, rval |-> PR.val,
           fcmps |-> fs.cmps, rcmps |-> rs.cmps, fticks |-> fs.ticks, rticks |-> rs.ticks, pfsteps |-> PF.steps, prsteps |-> PR.steps, arms |-> {"f_" \o a : a \in fs.arms} \cup {"r_" \o a : a \in rs.arms}]
EmitReplay == (Emit /\ Done) => PrintT(<<"REPLAY", ToJson(Vector)>>)
=============================================================================
