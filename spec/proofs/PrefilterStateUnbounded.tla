---------------------- MODULE PrefilterStateUnbounded ----------------------
(***************************************************************************)
(* Unbounded supplement to Prefilter / MC_PrefilterState (C14), proved     *)
(* with TLAPS: for ANY counter width (CTRMAX), any MIN_SKIPS and           *)
(* MIN_SKIP_BYTES and any sequence of is_effective() / update(k) calls     *)
(* with arbitrary skip distances k, every value written to a counter-width *)
(* register -- the two saturating counters and the product                 *)
(* MIN_SKIP_BYTES * skips() of the effectiveness test -- stays inside the  *)
(* width.  The product register is the one the genuine defect of section   *)
(* 11.3a overflowed (plain u32 multiplication); with the saturating        *)
(* multiplication of the repaired code the invariant is inductive.  The    *)
(* negative test replaces Sat(MSB * Sk) by MSB * Sk and must be rejected.  *)
(***************************************************************************)
EXTENDS Integers, TLAPS

CONSTANTS CTRMAX, MSB, MINSKIPS, K
ASSUME Assump == CTRMAX \in Nat /\ CTRMAX >= 1 /\ MSB \in Nat /\ MINSKIPS \in Nat /\ K \subseteq Nat

VARIABLES skips, skipped, prod, phase
vars == <<skips, skipped, prod, phase>>

Sat(x) == IF x > CTRMAX THEN CTRMAX ELSE x
Sk == IF skips = 0 THEN 0 ELSE skips - 1

Init == skips = 1 /\ skipped = 0 /\ prod = 0 /\ phase = "check"
Check == /\ phase = "check"
         /\ IF skips = 0
            THEN UNCHANGED vars
            ELSE IF Sk < MINSKIPS
                 THEN phase' = "update" /\ UNCHANGED <<skips, skipped, prod>>
                 ELSE /\ prod' = Sat(MSB * Sk)
                      /\ IF skipped >= prod'
                         THEN phase' = "update" /\ UNCHANGED <<skips, skipped>>
                         ELSE skips' = 0 /\ phase' = "check" /\ UNCHANGED skipped
Update == /\ phase = "update"
          /\ \E k \in K : /\ skips' = Sat(skips + 1)
                          /\ skipped' = (IF k > CTRMAX THEN CTRMAX ELSE Sat(skipped + k))
          /\ phase' = "check"
          /\ UNCHANGED prod
Next == Check \/ Update
Spec == Init /\ [][Next]_vars

InRange == /\ skips \in 0..CTRMAX /\ skipped \in 0..CTRMAX /\ prod \in 0..CTRMAX
           /\ phase \in {"check", "update"}

LEMMA SatRange == \A x \in Nat : Sat(x) \in 0..CTRMAX
  BY Assump DEF Sat

LEMMA ProdNat == \A a \in Nat : \A b \in Nat : a * b \in Nat
  OBVIOUS

THEOREM InitInv == Init => InRange
  BY Assump DEF Init, InRange

THEOREM NextInv == InRange /\ [Next]_vars => InRange'
<1> SUFFICES ASSUME InRange, [Next]_vars PROVE InRange'
  OBVIOUS
<1> USE Assump
<1>0. Sk \in Nat
  BY DEF InRange, Sk
<1>1. CASE Check
  <2>1. MSB * Sk \in Nat
    BY <1>0, ProdNat
  <2>2. Sat(MSB * Sk) \in 0..CTRMAX
    BY <2>1, SatRange
  <2> QED BY <1>1, <2>2 DEF Check, InRange, vars
<1>2. CASE Update
  <2> PICK k \in K : skips' = Sat(skips + 1) /\ skipped' = (IF k > CTRMAX THEN CTRMAX ELSE Sat(skipped + k))
    BY <1>2 DEF Update
  <2>1. skips + 1 \in Nat /\ skipped + k \in Nat
    BY DEF InRange
  <2>2. Sat(skips + 1) \in 0..CTRMAX /\ Sat(skipped + k) \in 0..CTRMAX
    BY <2>1, SatRange
  <2> QED BY <1>2, <2>2 DEF Update, InRange
<1>3. CASE UNCHANGED vars
  BY <1>3 DEF vars, InRange
<1> QED BY <1>1, <1>2, <1>3 DEF Next

THEOREM Safety == Spec => []InRange
  BY InitInv, NextInv, PTL DEF Spec
=============================================================================
