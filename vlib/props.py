"""Per-property recipes. Each recipe: TLC exhaustive runs (P/L-layer invariants)
-> REPLAY vectors -> real code (S->I); recorder -> ndjson traces -> TLC
validators (I->S); verdict classes -> VIOLATION lines; evidence."""
import json
import os

from . import common as C
from .common import Ctx, ToolError, log, parallel, run_tlc

GEN_INV = ["ResultIsOracle", "Safe", "NoBad", "Coverage", "Linear", "EmitReplay"]
SWAR_INV = ["ResultIsOracle", "Safe", "NoBad", "Linear", "EmitReplay"]

FIND_ARMS = {"h_hit", "h_miss", "l_hit", "l_miss", "l_exit", "v_hit", "v_miss", "v_exit", "t_hit", "t_miss", "t_none"}
COUNT_ARMS = {"c_head", "c_loop", "c_vec", "c_tail", "c_notail", "l_exit", "v_exit"}
SWAR_ARMS = {"empty", "short", "first_hit", "le_loop", "first_miss", "loop_break", "loop_cont", "loop_exit", "tail_bytes"}


def generic_shards(ctx, ops):
    """(tag, module, constants, invariants, workers) for the byte-search models."""
    q = ctx.quick
    ops = set(ops)
    S = []

    def g(tag, vb, minlen, maxlen, dense, nns, bases, fams, workers=2):
        S.append((tag, "MC_GenericMemchr",
                  dict(VB=vb, MinLen=minlen, MaxLen=maxlen, DenseMax=dense, Ops=ops, NNs=set(nns), Bases=set(bases),
                       Families=set(fams), Emit=True), GEN_INV, workers))

    # scaled widths: the whole loop structure (head, >= 2 unrolled iterations, vector loop, tail)
    g("g2", 2, 2, 24 if q else 30, 12 if q else 14, [1, 2], range(2), ["sparse", "holes", "dense"])
    for nn in (1, 2):
        g("g4n%d" % nn, 4, 4, 40 if q else 56, 10 if q else 13, [nn], range(4), ["sparse", "holes", "dense"])
    g("g8", 8, 8, 44 if q else 64, 8, [1, 2], range(8), ["sparse", "holes"] if not q else ["sparse"])
    g("g8s", 8, 45 if q else 65, 112, 8, [1, 2], range(8), ["single"])
    # real widths: exhaustive slices
    g("g16", 16, 16, 100 if q else 176, 15, [1, 2], [0, 1, 7, 8, 15] if q else range(16), ["single"])
    g("g32", 32, 32, 160 if q else 330, 31, [1, 2], [0, 1, 31] if q else [0, 1, 2, 15, 16, 17, 30, 31], ["single"])
    if not q:
        g("g16p", 16, 16, 84, 15, [1], [0, 3, 15], ["sparse"])
    return S


def swar_shards(ctx, ops):
    q = ctx.quick
    ops = set(ops)
    S = []
    for wb, mx, dn in ((8, 28 if q else 44, 10 if q else 12), (4, 20 if q else 28, 10), (2, 12, 10)):
        S.append(("s%d" % wb, "MC_Swar", dict(WB=wb, MaxLen=mx, DenseMax=dn, Ops=ops, NNs={1, 2},
                                              Families={"sparse", "holes", "dense"}, Emit=True), SWAR_INV, 2))
    return S


def run_shards(ctx, shards, timeout=1500):
    jobs = []
    res = {}

    def mk(tag, module, consts, invs, workers):
        def job():
            vec = os.path.join(ctx.dir, "vec_%s.ndjson" % tag)
            r = run_tlc(ctx, module, consts, invs, tag, emit_to=vec, workers=workers, timeout=timeout)
            res[tag] = r
            log("[tlc] %s %s: %d distinct states, %d vectors, %.1fs" % (module, tag, r["distinct_states"], r["vectors"], r["seconds"]))
            return r
        return job

    for s in shards:
        jobs.append(mk(*s))
    parallel(jobs, max_workers=max(2, C.NCPU // 2))
    return res


def byte_search(ctx, ops, verdict_classes):
    """Shared machinery of C01 (find), C02 (rfind), C07 (count)."""
    binp = C.build_harness()
    gs = generic_shards(ctx, ops)
    ss = swar_shards(ctx, ops)
    res = run_shards(ctx, gs + ss)
    gvec = C.cat_files([res[s[0]]["vec_path"] for s in gs], os.path.join(ctx.dir, "generic.ndjson"))
    svec = C.cat_files([res[s[0]]["vec_path"] for s in ss], os.path.join(ctx.dir, "swar.ndjson"))
    n1, nt1 = C.collect_arms(ctx, "GenericMemchr", gvec)
    n2, nt2 = C.collect_arms(ctx, "Swar", svec)
    need = set()
    if set(ops) & {"find", "rfind"}:
        need |= FIND_ARMS
    if "count" in ops:
        need |= COUNT_ARMS
    C.require_arms(ctx, "GenericMemchr", need)
    C.require_arms(ctx, "Swar", SWAR_ARMS if set(ops) & {"find", "rfind"} else {"count_bytes"})
    ctx.traces += n1 + n2
    ctx.nontrivial += nt1 + nt2
    v, s = (2, 3) if ctx.quick else (4, 6)
    rep, rc, err = C.run_harness(ctx, binp, ["replay-generic", "--in", gvec, "--variants", v, "--stretches", s, "--threads", C.NCPU], "generic")
    if rep is None:
        raise ToolError("replayer failed rc=%s: %s" % (rc, err[-2000:]))
    C.absorb_report(ctx, rep, verdict_classes, "generic")
    rep, rc, err = C.run_harness(ctx, binp, ["replay-generic", "--in", svec, "--no-scaled", "--variants", v, "--stretches", s, "--threads", C.NCPU], "swar")
    if rep is None:
        raise ToolError("replayer failed rc=%s: %s" % (rc, err[-2000:]))
    C.absorb_report(ctx, rep, verdict_classes, "swar")
    # the dispatcher's other branches: same vectors, top-level API only
    for force in ("sse2", "fallback"):
        for tag, vec in (("generic", gvec), ("swar", svec)):
            rep, rc, err = C.run_harness(ctx, binp, ["replay-generic", "--in", vec, "--no-scaled", "--only-top", "--variants", 1, "--stretches", 3, "--threads", C.NCPU],
                                         "%s_%s" % (tag, force), env_extra={"MEMCHR_VERIF_FORCE": force})
            if rep is None:
                raise ToolError("replayer failed rc=%s: %s" % (rc, err[-2000:]))
            C.absorb_report(ctx, rep, verdict_classes, "%s@%s" % (tag, force))
    ctx.evaluations = sum(v for k, v in ctx.counters.items() if k.endswith("real_exec") or k.endswith("scaled_exec"))


RULE_BYTES = ("TLC enumerates every (length, start alignment, match placement) of the L-models within the constants listed under tlc_runs; "
              "each terminated behaviour is one REPLAY vector executed on the real generic code at the model's width (hook facades), on every "
              "public backend and on the top-level API under each forced dispatch outcome, with value tables and affine stretches; "
              "a vector is non-trivial when its expected result is a match at offset > 0 / a count > 0; distinct = distinct vectors")


def c01(ctx):
    byte_search(ctx, ["find"], {"result", "panic"})
    return C.finish(ctx, "model_checking", RULE_BYTES)


def c02(ctx):
    byte_search(ctx, ["rfind"], {"result", "panic"})
    return C.finish(ctx, "model_checking", RULE_BYTES)


def c07(ctx):
    byte_search(ctx, ["count"], {"result", "panic"})
    return C.finish(ctx, "model_checking", RULE_BYTES)


RECIPES = {"C01": c01, "C02": c02, "C07": c07}


def run(prop, tier, seed):
    if prop not in RECIPES:
        raise ToolError("no check for property %s" % prop)
    ctx = Ctx(prop, tier, seed)
    return RECIPES[prop](ctx)


def replay(prop, path, seed):
    """Re-execute one saved violation context against the current tree."""
    ctx = Ctx(prop + "_replay", "quick", seed)
    obj = json.load(open(path))
    c = obj.get("ctx") or {}
    vec = c.get("vector")
    if vec is None:
        raise ToolError("replay file has no vector")
    binp = C.build_harness()
    vp = os.path.join(ctx.dir, "one.ndjson")
    with open(vp, "w") as f:
        f.write(json.dumps(vec) + "\n")
    m = vec.get("m")
    if m in ("generic", "swar"):
        args = ["replay-generic", "--in", vp, "--variants", 10, "--stretches", 12, "--threads", 1]
        if m == "swar":
            args.append("--no-scaled")
    else:
        raise ToolError("unknown vector kind %r" % m)
    rep, rc, err = C.run_harness(ctx, binp, args, "replay")
    if rep is None:
        raise ToolError("replayer failed: %s" % err[-2000:])
    bad = {k: v for k, v in rep.get("finding_counts", {}).items() if k != "drift"}
    print(json.dumps({"finding_counts": rep.get("finding_counts", {}), "first": [v[0] for v in rep.get("findings", {}).values()][:3]}, indent=1)[:4000])
    if bad:
        print("VIOLATION property=%s replay=%s" % (prop, path))
        return 1
    return 0
