//! Verification harness: replays TLC-generated behaviours into the real code
//! (S->I) and records executions of the real code for TLC validation (I->S).
mod backends;
mod r_generic;
mod util;

use serde_json::Value;
use std::io::{BufRead, Write};
use util::*;

pub struct Args(Vec<String>);
impl Args {
    pub fn flag(&self, name: &str) -> bool {
        self.0.iter().any(|a| a == name)
    }
    pub fn val(&self, name: &str) -> Option<&str> {
        self.0.iter().position(|a| a == name).and_then(|i| self.0.get(i + 1)).map(|s| s.as_str())
    }
    pub fn num(&self, name: &str, d: u64) -> u64 {
        self.val(name).map(|s| s.parse().expect("numeric argument")).unwrap_or(d)
    }
}

pub fn read_ndjson(path: &str) -> Vec<Value> {
    let f = std::fs::File::open(path).unwrap_or_else(|e| panic!("open {path}: {e}"));
    let mut out = Vec::new();
    for line in std::io::BufReader::new(f).lines() {
        let line = line.unwrap();
        let line = line.trim();
        if line.is_empty() {
            continue;
        }
        out.push(serde_json::from_str(line).unwrap_or_else(|e| panic!("bad json line: {e}: {line}")));
    }
    out
}

fn main() {
    let args = Args(std::env::args().skip(1).collect());
    let cmd = args.0.get(0).map(|s| s.as_str()).unwrap_or("");
    let threads = args.num("--threads", 8) as usize;
    let seed = args.num("--seed", 0);
    quiet_panics();
    let rep = Report::default();
    match cmd {
        "replay-generic" => {
            let vs = read_ndjson(args.val("--in").expect("--in"));
            let o = r_generic::Opts {
                variants: args.num("--variants", 1) as usize,
                stretches: args.num("--stretches", 1) as usize,
                only_top: args.flag("--only-top"),
                scaled: !args.flag("--no-scaled"),
                seed,
            };
            r_generic::replay(&vs, &rep, &o, threads);
        }
        _ => {
            eprintln!("unknown command {cmd:?}");
            std::process::exit(2);
        }
    }
    let out = rep.to_json();
    let s = serde_json::to_string(&out).unwrap();
    match args.val("--out") {
        Some(p) => std::fs::write(p, s).unwrap(),
        None => {
            std::io::stdout().write_all(s.as_bytes()).unwrap();
            println!();
        }
    }
}
