----------------------------- MODULE MC_IsEqual -----------------------------
(* All pairs of binary sequences with lengths 0..MaxLen (every residue of the *)
(* 4/2/1 tail, every content), and for equal lengths up to LongLen all pairs  *)
(* that differ exactly at a set D, |D| <= 2, at every position.               *)
EXTENDS IsEqual, TLC, Json
CONSTANTS MaxLen, LongLen, Emit
VARIABLES x, y, st
Init ==
  /\ \/ /\ x \in Seqs({0, 1}, 0, MaxLen) /\ y \in Seqs({0, 1}, 0, MaxLen)
     \/ \E n \in MaxLen + 1..LongLen : \E d1 \in 0..n : \E d2 \in d1..n :
          /\ (d1 = 0 => d2 = 0)
          /\ x = [i \in 1..n |-> 0]
          /\ y = [i \in 1..n |-> IF i = d1 \/ i = d2 THEN 1 ELSE 0]
  /\ st = IF Len(x) = Len(y) THEN IE_Init0 ELSE [IE_Init0 EXCEPT !.pc = "done"]
Next == st.pc # "done" /\ st' = IE_Step(x, y, st) /\ UNCHANGED <<x, y>>
ResultIsEquality == (st.pc = "done" /\ Len(x) = Len(y)) => (st.res <=> IsEqualSeq(x, y))
WrappersOK == st.pc = "done" =>
   /\ IE_IsEqual(x, y) <=> IsEqualSeq(x, y)
   /\ IE_IsPrefix(x, y) <=> IsPrefixSeq(x, y)
   /\ IE_IsSuffix(x, y) <=> IsSuffixSeq(x, y)
Safe == IE_LoadsOK(x, st)
Linear == IE_StepsLinear(x, st)
Vector == [m |-> "iseq", x |-> x, y |-> y, eq |-> IsEqualSeq(x, y), pre |-> IsPrefixSeq(x, y), suf |-> IsSuffixSeq(x, y),
           loads |-> st.loads, arms |-> st.arms]
EmitReplay == (Emit /\ st.pc = "done") => PrintT(<<"REPLAY", ToJson(Vector)>>)
=============================================================================
