------------------------------- MODULE TwoWay -------------------------------
(***************************************************************************)
(* L-layer model of src/arch/all/twoway.rs: preprocessing (maximal/minimal *)
(* suffix scans, critical position, Shift::{Small, Large}, approximate     *)
(* byte set) and the four search loops (forward/reverse x small/large      *)
(* period), forward loops with the optional adaptive prefilter threaded    *)
(* through.  One outer-loop iteration of the code = one TW_*Iter step.     *)
(* The approximate byte set keeps `byte % MODK` (MODK = 64 in the code).   *)
(* `bad` records any index arithmetic that would underflow / go out of     *)
(* range in the code (it would panic there).                               *)
(***************************************************************************)
EXTENDS Prefilter

CONSTANT MODK

TW_Byteset(n) == {At(n, k) % MODK : k \in 0..Len(n) - 1}

\* ---- Suffix::forward / Suffix::reverse ----
TW_Cmp(kind, cur, c) ==
  IF kind = "min" THEN (IF c < cur THEN "A" ELSE IF c > cur THEN "S" ELSE "P")
  ELSE (IF c > cur THEN "A" ELSE IF c < cur THEN "S" ELSE "P")
RECURSIVE TW_SufF(_, _, _, _, _, _, _)
TW_SufF(n, kind, pos, per, cand, off, steps) ==
  IF cand + off >= Len(n) THEN [pos |-> pos, per |-> per, steps |-> steps]
  ELSE LET o == TW_Cmp(kind, At(n, pos + off), At(n, cand + off)) IN
       IF o = "A" THEN TW_SufF(n, kind, cand, 1, cand + 1, 0, steps + 1)
       ELSE IF o = "S" THEN TW_SufF(n, kind, pos, cand + off + 1 - pos, cand + off + 1, 0, steps + 1)
       ELSE IF off + 1 = per THEN TW_SufF(n, kind, pos, per, cand + per, 0, steps + 1)
       ELSE TW_SufF(n, kind, pos, per, cand, off + 1, steps + 1)
RECURSIVE TW_SufR(_, _, _, _, _, _, _)
TW_SufR(n, kind, pos, per, cand, off, steps) ==
  IF off >= cand THEN [pos |-> pos, per |-> per, steps |-> steps]
  ELSE LET o == TW_Cmp(kind, At(n, pos - off - 1), At(n, cand - off - 1)) IN
       IF o = "A" THEN TW_SufR(n, kind, cand, 1, cand - 1, 0, steps + 1)
       ELSE IF o = "S" THEN TW_SufR(n, kind, pos, pos - (cand - (off + 1)), cand - (off + 1), 0, steps + 1)
       ELSE IF off + 1 = per THEN TW_SufR(n, kind, pos, per, cand - per, 0, steps + 1)
       ELSE TW_SufR(n, kind, pos, per, cand, off + 1, steps + 1)
TW_SuffixRev(n, kind) ==
  IF Len(n) <= 1 THEN [pos |-> Len(n), per |-> 1, steps |-> 0]
  ELSE TW_SufR(n, kind, Len(n), 1, Len(n) - 1, 0, 0)

\* Finder::new
TW_PrepFwd(n) ==
  LET mn == TW_SufF(n, "min", 0, 1, 1, 0, 0)  mx == TW_SufF(n, "max", 0, 1, 1, 0, 0)
      c == IF mn.pos > mx.pos THEN mn ELSE mx
      crit == c.pos  plb == c.per  large == Max2(crit, Len(n) - crit)
      small == crit * 2 < Len(n) /\ IsSuffixSeq(SubSeq(n, crit + 1, crit + plb), Take(n, crit))   \* is_suffix(&v[..plb], u)
  IN [crit |-> crit, small |-> small, val |-> IF small THEN plb ELSE large, byteset |-> TW_Byteset(n),
      steps |-> mn.steps + mx.steps, bad |-> (~(crit * 2 >= Len(n)) /\ crit + plb > Len(n))]
\* FinderRev::new
TW_PrepRev(n) ==
  LET mn == TW_SuffixRev(n, "min")  mx == TW_SuffixRev(n, "max")
      c == IF mn.pos < mx.pos THEN mn ELSE mx
      crit == c.pos  plb == c.per  large == Max2(crit, Len(n) - crit)
      \* (v, u) = needle.split_at(crit); is_prefix(&v[v.len() - plb ..], u)
      small == (Len(n) - crit) * 2 < Len(n) /\ crit >= plb /\ IsPrefixSeq(SubSeq(n, crit - plb + 1, crit), Drop(n, crit))
  IN [crit |-> crit, small |-> small, val |-> IF small THEN plb ELSE large, byteset |-> TW_Byteset(n),
      steps |-> mn.steps + mx.steps, bad |-> (~((Len(n) - crit) * 2 >= Len(n)) /\ crit < plb)]

\* ---- forward search ----
RECURSIVE TW_ScanR(_, _, _, _)
TW_ScanR(n, h, pos, i) == IF i < Len(n) /\ At(n, i) = At(h, pos + i) THEN TW_ScanR(n, h, pos, i + 1) ELSE i
RECURSIVE TW_ScanL(_, _, _, _, _)   \* small period: while j > shift && needle[j] == haystack[pos+j]: j -= 1
TW_ScanL(n, h, pos, j, lim) == IF j > lim /\ At(n, j) = At(h, pos + j) THEN TW_ScanL(n, h, pos, j - 1, lim) ELSE j
RECURSIVE TW_ScanLL(_, _, _, _)     \* large period: for j in (0..crit).rev(); -1 if all equal else the mismatching j
TW_ScanLL(n, h, pos, j) == IF j < 0 THEN -1 ELSE IF At(n, j) # At(h, pos + j) THEN j ELSE TW_ScanLL(n, h, pos, j - 1)

\* `ticks` mirrors the placement of the H7 step-counter hook exactly (one per outer-loop body entry, one per byte matched in
\* the right/left scans, one per iteration of the large-period `for j` loop) so that the code's counter can be compared with it
TW_Init(ps) == [pos |-> 0, shift |-> 0, ps |-> ps, cmps |-> 0, ticks |-> 0, pre |-> 0, iters |-> 0, res |-> -2, done |-> FALSE, bad |-> FALSE, arms |-> {}]

\* one iteration of the outer `while pos + needle.len() <= haystack.len()` loop (needle non-empty)
TW_FwdIter(n, p, pre, h, st) ==
  LET nl == Len(n)  hl == Len(h)
      fin(s, r, arm) == [s EXCEPT !.done = TRUE, !.res = r, !.arms = @ \cup {arm}]
  IN
  IF st.pos + nl > hl THEN fin(st, -1, "exit")
  ELSE
  LET e == IF pre.kind # "none" THEN PS_Effective(st.ps) ELSE [eff |-> FALSE, ps |-> st.ps]
      c == IF e.eff THEN PF_PreFind(n, pre, Drop(h, st.pos), e.ps) ELSE [res |-> 0, route |-> "off", ps |-> e.ps]
      pos1 == IF e.eff /\ c.res >= 0 THEN st.pos + c.res ELSE st.pos
      sh1 == IF e.eff THEN 0 ELSE st.shift
      st1 == [st EXCEPT !.ps = c.ps, !.pre = @ + (IF e.eff THEN 1 ELSE 0), !.iters = @ + 1, !.ticks = @ + 1,
                        !.arms = @ \cup {IF e.eff THEN "pre_" \o c.route ELSE IF pre.kind # "none" /\ PS_Inert(e.ps) THEN "pre_inert" ELSE "pre_off"}]
  IN IF e.eff /\ c.res < 0 THEN fin(st1, -1, "pre_none")
     ELSE IF pos1 + nl > hl THEN fin([st1 EXCEPT !.pos = pos1], -1, "pre_past_end")
     ELSE IF (At(h, pos1 + nl - 1) % MODK) \notin p.byteset
          THEN [st1 EXCEPT !.pos = pos1 + nl, !.shift = 0, !.cmps = @ + 1, !.arms = @ \cup {"byteset_skip"}]
     ELSE IF p.small THEN
        LET i0 == Max2(p.crit, sh1)  i == TW_ScanR(n, h, pos1, i0) IN
        IF i < nl THEN [st1 EXCEPT !.pos = pos1 + (i - p.crit + 1), !.shift = 0, !.cmps = @ + (i - i0 + 1), !.ticks = @ + (i - i0),
                                   !.bad = @ \/ (i - p.crit + 1 <= 0), !.arms = @ \cup {"s_right_mismatch"}]
        ELSE LET j == TW_ScanL(n, h, pos1, p.crit, sh1) IN
             IF j <= sh1 /\ At(n, sh1) = At(h, pos1 + sh1)
             THEN fin([st1 EXCEPT !.pos = pos1, !.cmps = @ + (i - i0) + (p.crit - j + 1), !.ticks = @ + (i - i0) + (p.crit - j)], pos1, "s_match")
             ELSE [st1 EXCEPT !.pos = pos1 + p.val, !.shift = nl - p.val, !.cmps = @ + (i - i0) + (p.crit - j + 1), !.ticks = @ + (i - i0) + (p.crit - j),
                              !.bad = @ \/ (p.val <= 0) \/ (nl - p.val < 0), !.arms = @ \cup {"s_period_shift"}]
     ELSE
        LET i == TW_ScanR(n, h, pos1, p.crit) IN
        IF i < nl THEN [st1 EXCEPT !.pos = pos1 + (i - p.crit + 1), !.cmps = @ + (i - p.crit + 1), !.ticks = @ + (i - p.crit), !.arms = @ \cup {"l_right_mismatch"}]
        ELSE LET j == TW_ScanLL(n, h, pos1, p.crit - 1) IN
             IF j < 0 THEN fin([st1 EXCEPT !.pos = pos1, !.cmps = @ + (i - p.crit) + p.crit, !.ticks = @ + (i - p.crit) + p.crit], pos1, "l_match")
             ELSE [st1 EXCEPT !.pos = pos1 + p.val, !.cmps = @ + (i - p.crit) + (p.crit - j), !.ticks = @ + (i - p.crit) + (p.crit - j),
                              !.bad = @ \/ (p.val <= 0), !.arms = @ \cup {"l_shift"}]
RECURSIVE TW_FwdRun(_, _, _, _, _)
TW_FwdRun(n, p, pre, h, st) == IF st.done THEN st ELSE TW_FwdRun(n, p, pre, h, TW_FwdIter(n, p, pre, h, st))
\* Finder::find_with_prefilter (empty needle => Some(0))
TW_Find(n, p, pre, h, ps) ==
  IF Len(n) = 0 THEN [TW_Init(ps) EXCEPT !.done = TRUE, !.res = 0] ELSE TW_FwdRun(n, p, pre, h, TW_Init(ps))
TW_NoPre == [kind |-> "none", i1 |-> 0, i2 |-> 0, vbs |-> <<1>>]

\* ---- reverse search ----
RECURSIVE TW_RScanL(_, _, _, _)    \* while i > 0 && needle[i-1] == haystack[pos - nlen + i - 1]: i -= 1
TW_RScanL(n, h, base, i) == IF i > 0 /\ At(n, i - 1) = At(h, base + i - 1) THEN TW_RScanL(n, h, base, i - 1) ELSE i
RECURSIVE TW_RScanR(_, _, _, _, _) \* while j < lim && needle[j] == haystack[pos - nlen + j]: j += 1
TW_RScanR(n, h, base, j, lim) == IF j < lim /\ At(n, j) = At(h, base + j) THEN TW_RScanR(n, h, base, j + 1, lim) ELSE j

TW_RInit(h, n) == [pos |-> Len(h), shift |-> Len(n), cmps |-> 0, ticks |-> 0, iters |-> 0, res |-> -2, done |-> FALSE, bad |-> FALSE, arms |-> {}]
TW_RevIter(n, p, h, st) ==
  LET nl == Len(n)
      fin(s, r, arm) == [s EXCEPT !.done = TRUE, !.res = r, !.arms = @ \cup {arm}]
      base == st.pos - nl
      st1 == [st EXCEPT !.iters = @ + 1, !.ticks = @ + 1]
  IN
  IF st.pos < nl THEN fin(st, -1, "exit")
  ELSE IF (At(h, base) % MODK) \notin p.byteset
       THEN [st1 EXCEPT !.pos = st.pos - nl, !.shift = nl, !.cmps = @ + 1, !.arms = @ \cup {"byteset_skip"}]
  ELSE IF p.small THEN
     LET i0 == Min2(p.crit, st.shift)  i == TW_RScanL(n, h, base, i0) IN
     IF i > 0 \/ At(n, 0) # At(h, base)
     THEN [st1 EXCEPT !.pos = st.pos - (p.crit - i + 1), !.shift = nl, !.cmps = @ + (i0 - i + 1), !.ticks = @ + (i0 - i),
                      !.bad = @ \/ (p.crit - i + 1 <= 0) \/ (st.pos - (p.crit - i + 1) < 0), !.arms = @ \cup {"s_left_mismatch"}]
     ELSE LET j == TW_RScanR(n, h, base, p.crit, st.shift) IN
          IF j >= st.shift THEN fin([st1 EXCEPT !.cmps = @ + (i0 - i) + (j - p.crit + 1), !.ticks = @ + (i0 - i) + (j - p.crit)], base, "s_match")
          ELSE [st1 EXCEPT !.pos = st.pos - p.val, !.shift = p.val, !.cmps = @ + (i0 - i) + (j - p.crit + 1), !.ticks = @ + (i0 - i) + (j - p.crit),
                           !.bad = @ \/ (p.val <= 0) \/ (st.pos - p.val < 0), !.arms = @ \cup {"s_period_shift"}]
  ELSE
     LET i == TW_RScanL(n, h, base, p.crit) IN
     IF i > 0 \/ At(n, 0) # At(h, base)
     THEN [st1 EXCEPT !.pos = st.pos - (p.crit - i + 1), !.cmps = @ + (p.crit - i + 1), !.ticks = @ + (p.crit - i),
                      !.bad = @ \/ (st.pos - (p.crit - i + 1) < 0), !.arms = @ \cup {"l_left_mismatch"}]
     ELSE LET j == TW_RScanR(n, h, base, p.crit, nl) IN
          IF j = nl THEN fin([st1 EXCEPT !.cmps = @ + (p.crit - i) + (j - p.crit), !.ticks = @ + (p.crit - i) + (j - p.crit)], base, "l_match")
          ELSE [st1 EXCEPT !.pos = st.pos - p.val, !.cmps = @ + (p.crit - i) + (j - p.crit + 1), !.ticks = @ + (p.crit - i) + (j - p.crit),
                           !.bad = @ \/ (p.val <= 0) \/ (st.pos - p.val < 0), !.arms = @ \cup {"l_shift"}]
RECURSIVE TW_RevRun(_, _, _, _)
TW_RevRun(n, p, h, st) == IF st.done THEN st ELSE TW_RevRun(n, p, h, TW_RevIter(n, p, h, st))
TW_RFind(n, p, h) ==
  IF Len(n) = 0 THEN [TW_RInit(h, n) EXCEPT !.done = TRUE, !.res = Len(h)] ELSE TW_RevRun(n, p, h, TW_RInit(h, n))
=============================================================================
