//! I->S recorders: the real library is driven with seeded random and
//! structured inputs at its real constants (and, for C15, from racing threads
//! in fresh processes); every completed public call is written as an
//! observation. TLC (spec/Trace_Lib.tla) validates every observation against
//! the P-layer oracles -- the recorder computes no expected values.
use crate::backends::all_searchers;
use crate::util::*;
use memchr::memmem;
use memchr::verif as hook;
use serde_json::{json, Value};
use std::io::Write;

fn obs(e: &str, t: &str, r: Value, al: u64, own: bool) -> Value {
    json!({"e": e, "t": t, "r": r, "al": al, "own": own})
}

const EDGE_LENS: &[usize] = &[0, 1, 2, 3, 7, 8, 9, 15, 16, 17, 31, 32, 33, 47, 48, 63, 64, 65, 79, 80, 95, 96, 127, 128, 129, 160, 191, 192, 193, 255, 256, 257];

fn pick_len(r: &mut Rng, max: usize) -> usize {
    if r.chance(1, 2) {
        *r.pick(EDGE_LENS) % (max + 1)
    } else {
        r.below(max + 1)
    }
}

/// One byte-search record: 1..3 needles, haystack at a random alignment, all backends.
pub fn bytes_record(r: &mut Rng) -> Value {
    let nn = 1 + r.below(3);
    let specials = [0x00u8, 0x01, 0x7F, 0x80, 0x81, 0xFE, 0xFF, b'a', b'\n'];
    let mut needles: Vec<u8> = (0..nn).map(|_| if r.chance(1, 2) { *r.pick(&specials) } else { r.byte() }).collect();
    if nn > 1 && r.chance(1, 5) {
        needles[nn - 1] = needles[0];
    }
    let len = pick_len(r, 300);
    let mode = r.below(5);
    let near = needles[0] ^ [1u8, 0x80, 0xFF, 2][r.below(4)];
    let mut p = Placed::new(len, r.below(64), 0);
    {
        let h = p.slice_mut();
        for b in h.iter_mut() {
            *b = match mode {
                0 => near,                                                       // no match, bytes one bit away from the needle
                1 => if r.chance(1, 40) { needles[r.below(nn)] } else { near }, // sparse
                2 => if r.chance(1, 2) { needles[r.below(nn)] } else { r.byte() }, // dense
                3 => needles[r.below(nn)],                                      // all match
                _ => r.byte(),
            };
        }
        if mode == 0 && len > 0 && r.chance(3, 4) {
            let pos = if r.chance(1, 2) { r.below(len) } else { len - 1 - r.below(len.min(40)) };
            h[pos] = needles[r.below(nn)];
        }
    }
    p.fill_slack(needles[0]);
    let h = p.slice();
    json!({"k": "bytes", "n": needles, "h": h, "obs": bytes_obs(&needles, h)})
}

/// All byte-search observations for the given needles and haystack.
pub fn bytes_obs(needles: &[u8], h: &[u8]) -> Vec<Value> {
    let mut o = Vec::new();
    for sr in all_searchers(needles, false) {
        let b = sr.backend();
        let s = h.as_ptr();
        let e = unsafe { s.add(h.len()) };
        o.push(obs(&format!("{b}.find"), "first", json!(opt_to_i(sr.find(h))), 0, false));
        o.push(obs(&format!("{b}.rfind"), "last", json!(opt_to_i(sr.rfind(h))), 0, false));
        if let Some(x) = unsafe { sr.find_raw(s, e) } {
            o.push(obs(&format!("{b}.find_raw"), "first", json!(crate::r_generic::ptr_i(x, s)), 0, false));
        }
        if let Some(x) = unsafe { sr.rfind_raw(s, e) } {
            o.push(obs(&format!("{b}.rfind_raw"), "last", json!(crate::r_generic::ptr_i(x, s)), 0, false));
        }
        if let Some(c) = sr.count(h) {
            o.push(obs(&format!("{b}.count"), "count", json!(c), 0, false));
        }
        o.push(obs(&format!("{b}.iter.count"), "count", json!(sr.iter(h).count_rest()), 0, false));
        let mut it = sr.iter(h);
        o.push(obs(&format!("{b}.iter.next"), "first", json!(opt_to_i(it.next())), 0, false));
        o.push(obs(&format!("{b}.iter.next_back"), "last", json!(opt_to_i(sr.iter(h).next_back())), 0, false));
    }
    o
}

fn structured_needle(r: &mut Rng) -> Vec<u8> {
    let alpha: &[u8] = match r.below(4) {
        0 => b"ab",
        1 => b"abc",
        2 => &[0x41, 0x01, 0x81, 0xC1], // equal mod 64
        _ => b"etaoin shrdlu",
    };
    let len = match r.below(8) {
        0 => 0,
        1 => 1,
        2 => 2 + r.below(4),
        3 => 6 + r.below(27),
        4 => 33 + r.below(20),
        5 => 32,
        6 => 15 + r.below(3),
        _ => 2 + r.below(70),
    };
    match r.below(4) {
        0 => (0..len).map(|_| *r.pick(alpha)).collect(),
        1 => {
            // u^k v
            let ul = 1 + r.below(5);
            let u: Vec<u8> = (0..ul).map(|_| *r.pick(alpha)).collect();
            let mut v: Vec<u8> = u.iter().cycle().take(len).cloned().collect();
            if len > 0 && r.chance(1, 2) {
                let i = v.len() - 1 - r.below(v.len().min(3));
                v[i] = *r.pick(alpha);
            }
            v
        }
        2 => {
            // Fibonacci-like over two letters of the alphabet
            let (x, y) = (alpha[0], alpha[alpha.len() - 1]);
            let (mut a, mut b) = (vec![x], vec![x, y]);
            while b.len() < len {
                let c = [b.clone(), a.clone()].concat();
                a = b;
                b = c;
            }
            b.truncate(len);
            b
        }
        _ => vec![*r.pick(alpha); len],
    }
}

fn structured_haystack(r: &mut Rng, n: &[u8]) -> Vec<u8> {
    let target = pick_len(r, 260);
    let mut h = Vec::new();
    let filler = [b'#', b'z', 0x00, 0xC1][r.below(4)];
    while h.len() < target {
        match r.below(7) {
            0 => h.extend_from_slice(n),
            1 if !n.is_empty() => {
                // near miss: one byte changed
                let mut m = n.to_vec();
                let i = r.below(m.len());
                m[i] = if r.chance(1, 2) { filler } else { m[(i + 1) % m.len()] ^ 1 };
                h.extend(m);
            }
            2 if !n.is_empty() => {
                let k = r.below(n.len());
                h.extend_from_slice(&n[k..]); // suffix
            }
            3 if !n.is_empty() => {
                let k = 1 + r.below(n.len());
                h.extend_from_slice(&n[..k]); // prefix
            }
            4 => {
                let g = r.below(20);
                h.extend(std::iter::repeat(filler).take(g));
            }
            5 if !n.is_empty() => h.push(n[r.below(n.len())]),
            _ => h.push(r.byte()),
        }
    }
    h.truncate(target);
    h
}

/// One substring record: structured needle and haystack; the whole substring API.
pub fn sub_record(r: &mut Rng) -> Value {
    let mut n = structured_needle(r);
    if !n.is_empty() && r.chance(1, 4) {
        // tail family: the first (usually only) occurrence ends 0..3 bytes before the end of the haystack and follows
        // near misses that keep the needle's last bytes; in half of the cases the needle's rarest bytes are its last
        // two, so that a vector prefilter's minimum haystack length exceeds the needle length and the last prefilter
        // call sees a remainder shorter than that minimum
        if n.len() >= 2 && r.chance(1, 2) {
            let l = n.len();
            n[l - 1] = b'Q';
            n[l - 2] = [b'Z', 0xF7, b'q'][r.below(3)];
        }
        let filler = [b'#', b'z', 0x00, 0xC1][r.below(4)];
        let target = pick_len(r, 200);
        let mut h = Vec::new();
        while h.len() < target {
            match r.below(4) {
                0 | 1 => {
                    let mut m = n.clone();
                    let i = r.below((m.len() + 1) / 2);
                    m[i] = if m[i] == filler { filler ^ 0x55 } else { filler };
                    h.extend(m);
                }
                2 => h.extend(std::iter::repeat(filler).take(r.below(20))),
                _ => h.extend_from_slice(&n[r.below(n.len())..]),
            }
        }
        h.extend_from_slice(&n);
        h.extend(std::iter::repeat(filler).take(r.below(4)));
        return json!({"k": "sub", "n": n, "h": h, "obs": sub_obs(&n, &h)});
    }
    if n.len() >= 2 && r.chance(1, 6) {
        // stray family: the haystack is barely longer than the needle -- too short for a vector prefilter whose pair
        // offsets lie near the needle's end, so the scalar rarest-byte fallback runs -- and starts with stray copies of
        // the needle's rarest bytes (candidates that would lie before the haystack start)
        while n.len() < 33 {
            let x = n.clone();
            n.extend(x);
        }
        n.truncate(33 + r.below(40));
        let l = n.len();
        let (q, z) = ([b'Q', b'Z', 0xF7][r.below(3)], [b'q', b'z', 0xF8][r.below(3)]);
        let p1 = l - 1 - r.below(l.min(15));
        n[p1] = q;
        let p2 = r.below(l);
        if p2 != p1 {
            n[p2] = z;
        }
        let filler = [b'#', b'-', 0x00][r.below(3)];
        let mut h = Vec::new();
        for _ in 0..(1 + r.below(12)) {
            h.push(match r.below(4) {
                0 | 1 => q,
                2 => z,
                _ => filler,
            });
        }
        h.extend_from_slice(&n);
        h.extend(std::iter::repeat(filler).take(r.below(4)));
        return json!({"k": "sub", "n": n, "h": h, "obs": sub_obs(&n, &h)});
    }
    let h = structured_haystack(r, &n);
    json!({"k": "sub", "n": n, "h": h, "obs": sub_obs(&n, &h)})
}

/// All substring observations for the given needle and haystack.
pub fn sub_obs(n: &[u8], h: &[u8]) -> Vec<Value> {
    let (n, h) = (n.to_vec(), h.to_vec());
    let mut o = Vec::new();
    let fwd = |it: &mut dyn Iterator<Item = usize>, cap: usize| -> Vec<usize> { it.take(cap).collect() };
    let cap = h.len() + 3;
    let a0 = allocs();
    let x = memmem::find(&h, &n);
    o.push(obs("memmem::find", "find", json!(opt_to_i(x)), allocs() - a0, false));
    let a0 = allocs();
    let x = memmem::rfind(&h, &n);
    o.push(obs("memmem::rfind", "rfind", json!(opt_to_i(x)), allocs() - a0, false));
    let a0 = allocs();
    let f = memmem::Finder::new(&n);
    let x = f.find(&h);
    o.push(obs("Finder::new+find", "find", json!(opt_to_i(x)), allocs() - a0, false));
    let a0 = allocs();
    let fr = memmem::FinderRev::new(&n);
    let x = fr.rfind(&h);
    o.push(obs("FinderRev::new+rfind", "rfind", json!(opt_to_i(x)), allocs() - a0, false));
    let x = memmem::FinderBuilder::new().prefilter(memmem::Prefilter::None).build_forward(&n).find(&h);
    o.push(obs("build_forward[prefilter=None].find", "find", json!(opt_to_i(x)), 0, false));
    // C10: the same search under other byte-frequency rankers (prefilter automatic)
    for kind in [2usize, 3, 5] {
        let (name, table) = crate::r_mm::ranker(kind, &n, 1);
        let fb = memmem::FinderBuilder::new().build_forward_with_ranker(table, &n);
        o.push(obs(&format!("build_forward_with_ranker[{name}].find"), "find", json!(opt_to_i(fb.find(&h))), 0, false));
        o.push(obs(&format!("build_forward_with_ranker[{name}].find_iter"), "fwd", json!(fwd(&mut fb.find_iter(&h), cap)), 0, false));
    }
    o.push(obs("memmem::find_iter", "fwd", json!(fwd(&mut memmem::find_iter(&h, &n), cap)), 0, false));
    o.push(obs("memmem::rfind_iter", "rev", json!(fwd(&mut memmem::rfind_iter(&h, &n), cap)), 0, false));
    o.push(obs("Finder::find_iter", "fwd", json!(fwd(&mut f.find_iter(&h), cap)), 0, false));
    {
        use memchr::arch::all::{rabinkarp, twoway};
        o.push(obs("twoway::Finder", "find", json!(opt_to_i(twoway::Finder::new(&n).find(&h, &n))), 0, false));
        o.push(obs("twoway::FinderRev", "rfind", json!(opt_to_i(twoway::FinderRev::new(&n).rfind(&h, &n))), 0, false));
        o.push(obs("rabinkarp::Finder", "find", json!(opt_to_i(rabinkarp::Finder::new(&n).find(&h, &n))), 0, false));
        o.push(obs("rabinkarp::FinderRev", "rfind", json!(opt_to_i(rabinkarp::FinderRev::new(&n).rfind(&h, &n))), 0, false));
        #[cfg(feature = "alloc")]
        if let Some(so) = memchr::arch::all::shiftor::Finder::new(&n) {
            o.push(obs("shiftor::Finder", "find", json!(opt_to_i(so.find(&h))), 1, true));
        }
        #[cfg(verif_x86)]
        {
            use memchr::arch::x86_64::{avx2, sse2};
            if let Some(pf) = sse2::packedpair::Finder::new(&n) {
                if h.len() >= pf.min_haystack_len() {
                    o.push(obs("sse2::packedpair::Finder", "find", json!(opt_to_i(pf.find(&h, &n))), 0, false));
                }
            }
            if let Some(pf) = avx2::packedpair::Finder::new(&n) {
                if h.len() >= pf.min_haystack_len() {
                    o.push(obs("avx2::packedpair::Finder", "find", json!(opt_to_i(pf.find(&h, &n))), 0, false));
                }
            }
        }
    }
    {
        use memchr::arch::all::{is_equal, is_prefix, is_suffix};
        o.push(obs("is_prefix", "prefix", json!(is_prefix(&h, &n) as u8), 0, false));
        o.push(obs("is_suffix", "suffix", json!(is_suffix(&h, &n) as u8), 0, false));
        o.push(obs("is_equal", "eq", json!(is_equal(&h, &n) as u8), 0, false));
    }
    o
}

/// Replay of a recorded input: re-execute every observation for (n, h) of a saved record on the current tree.
pub fn rerecord(inp: &str, out: &str) {
    let v: Value = serde_json::from_str(&std::fs::read_to_string(inp).unwrap()).unwrap();
    let rec = v.get("ctx").and_then(|c| c.get("record")).unwrap_or(&v);
    let n = get_bytes(rec, "n");
    let h = get_bytes(rec, "h");
    let k = rec.get("k").and_then(|x| x.as_str()).unwrap_or("sub");
    let o = if k == "bytes" || k == "conc" { bytes_obs(&n, &h) } else { sub_obs(&n, &h) };
    std::fs::write(out, format!("{}\n", json!({"k": k, "n": n, "h": h, "obs": o}))).unwrap();
}

/// Keep only the observations whose kind is in `kinds` (empty = all) and, for substring records,
/// whose entry belongs to the requested group ("api": top-level/Finder/iterators, "block": low-level searchers).
fn filter_obs(rec: &mut Value, kinds: &[&str], group: &str) {
    let is_block = |e: &str| e.starts_with("twoway::") || e.starts_with("rabinkarp::") || e.starts_with("shiftor::") || e.contains("packedpair::");
    if let Some(arr) = rec.get_mut("obs").and_then(|o| o.as_array_mut()) {
        arr.retain(|o| {
            let t = o["t"].as_str().unwrap_or("");
            let e = o["e"].as_str().unwrap_or("");
            (kinds.is_empty() || kinds.contains(&t)) && (group == "all" || (group == "block") == is_block(e))
        });
    }
}

/// C11 I->S: public packed-pair prefilters with pair offsets up to 254 (long needles), haystacks at and above the
/// finder's minimum length, first occurrence placed in the last overlapping chunk / final needle.len() bytes.
pub fn pre_record(r: &mut Rng) -> Value {
    use memchr::arch::all::packedpair::{self, Pair};
    let nl = [2usize, 3, 5, 16, 17, 33, 64, 100, 255, 256, 300][r.below(11)];
    let alpha: &[u8] = if r.chance(1, 2) { b"ab" } else { b"abcdefgh" };
    let n: Vec<u8> = (0..nl).map(|_| *r.pick(alpha)).collect();
    let cap = nl.min(255);
    let (i1, i2) = loop {
        let a = if r.chance(1, 3) { cap - 1 - r.below(cap.min(3)) } else { r.below(cap) };
        let b = if r.chance(1, 3) { r.below(cap.min(3)) } else { r.below(cap) };
        if a != b {
            break (a, b);
        }
    };
    let pair = Pair::with_indices(&n, i1 as u8, i2 as u8).expect("valid pair");
    let minlen = nl.max(i1.max(i2) + 32);
    let hl = minlen + r.below(70);
    let mut h: Vec<u8> = (0..hl).map(|_| if r.chance(1, 6) { *r.pick(alpha) } else { b'.' }).collect();
    // partial pair hits and an occurrence near the end (or none)
    for _ in 0..r.below(4) {
        let p = r.below(hl);
        if p + i1 < hl {
            h[p + i1] = n[i1];
        }
        if r.chance(1, 2) && p + i2 < hl {
            h[p + i2] = n[i2];
        }
    }
    if r.chance(3, 4) {
        let p = if r.chance(1, 2) { hl - nl - r.below((hl - nl + 1).min(nl.max(20))) } else { r.below(hl - nl + 1) };
        h[p..p + nl].copy_from_slice(&n);
    }
    let mut o = Vec::new();
    let pre = |e: &str, c: Option<usize>| json!({"e": e, "t": "pre", "r": opt_to_i(c), "i1": i1, "i2": i2, "al": 0, "own": false});
    if let Some(f) = packedpair::Finder::with_pair(&n, pair) {
        o.push(pre("all::packedpair::find_prefilter", f.find_prefilter(&h)));
    }
    #[cfg(verif_x86)]
    {
        use memchr::arch::x86_64::{avx2, sse2};
        if let Some(f) = sse2::packedpair::Finder::with_pair(&n, pair) {
            if h.len() >= f.min_haystack_len() {
                o.push(pre("sse2::packedpair::find_prefilter", f.find_prefilter(&h)));
                o.push(obs("sse2::packedpair::find", "find", json!(opt_to_i(f.find(&h, &n))), 0, false));
            }
        }
        if let Some(f) = avx2::packedpair::Finder::with_pair(&n, pair) {
            if h.len() >= f.min_haystack_len() {
                o.push(pre("avx2::packedpair::find_prefilter", f.find_prefilter(&h)));
                o.push(obs("avx2::packedpair::find", "find", json!(opt_to_i(f.find(&h, &n))), 0, false));
            }
        }
    }
    json!({"k": "pre", "n": n, "h": h, "obs": o})
}

pub fn record(path: &str, family: &str, count: usize, seed: u64, force: &str, kinds: &str, group: &str) -> u64 {
    let kinds: Vec<&str> = kinds.split(',').filter(|x| !x.is_empty()).collect();
    memchr::verif::set_force(force);
    let mut f = std::io::BufWriter::new(std::fs::File::create(path).unwrap());
    let mut r = Rng::new(seed ^ 0x5EED);
    for i in 0..count {
        let rec = match family {
            "bytes" => bytes_record(&mut r),
            "sub" => sub_record(&mut r),
            "pre" => pre_record(&mut r),
            _ => {
                if i % 2 == 0 {
                    bytes_record(&mut r)
                } else {
                    sub_record(&mut r)
                }
            }
        };
        let mut rec = rec;
        filter_obs(&mut rec, &kinds, group);
        if rec["obs"].as_array().map_or(true, |a| a.is_empty()) {
            continue;
        }
        writeln!(f, "{}", rec).unwrap();
    }
    f.flush().unwrap();
    count as u64
}

// ---------------------------------------------------------------------------
// C15: racing threads. One fresh process per trial so that the very first
// calls race to install the CPU-specific implementation.

fn thread_calls(tid: usize, seed: u64, out: &mut Vec<Value>) {
    let mut r = Rng::new(seed.wrapping_mul(1000).wrapping_add(tid as u64));
    // per-thread input
    let len = 40 + r.below(80);
    let n1 = b'a' + (tid % 20) as u8;
    let (n2, n3) = (n1 ^ 0x20, b'0' + (tid % 10) as u8);
    let mut h: Vec<u8> = (0..len).map(|_| b'#').collect();
    for _ in 0..3 {
        let p = r.below(len);
        h[p] = [n1, n2, n3][r.below(3)];
    }
    // the seven dispatched routines, order rotated per thread so that different threads race on different cells
    let order: Vec<usize> = (0..7).map(|k| (k + tid) % 7).collect();
    for round in 0..2 {
        for &k in &order {
            hook::start(&[]);
            let (e, t, nd, ret): (&str, &str, Vec<u8>, i64) = match k {
                0 => ("memchr", "first", vec![n1], opt_to_i(memchr::memchr(n1, &h))),
                1 => ("memchr2", "first", vec![n1, n2], opt_to_i(memchr::memchr2(n1, n2, &h))),
                2 => ("memchr3", "first", vec![n1, n2, n3], opt_to_i(memchr::memchr3(n1, n2, n3, &h))),
                3 => ("memrchr", "last", vec![n1], opt_to_i(memchr::memrchr(n1, &h))),
                4 => ("memrchr2", "last", vec![n1, n2], opt_to_i(memchr::memrchr2(n1, n2, &h))),
                5 => ("memrchr3", "last", vec![n1, n2, n3], opt_to_i(memchr::memrchr3(n1, n2, n3, &h))),
                _ => ("memchr_iter.count", "count", vec![n1], memchr::memchr_iter(n1, &h).count() as i64),
            };
            let (ev, _) = hook::stop();
            let routes: Vec<usize> = ev.iter().filter(|x| x.kind == b'r').map(|x| x.addr).collect();
            out.push(json!({"k": "conc", "proc": seed, "tid": tid, "n": nd, "h": h, "routes": routes, "round": round,
                            "obs": [obs(&format!("t{tid}.{e}"), t, json!(ret), 0, false)]}));
        }
    }
}

/// Child process: `threads` threads released by a barrier make their first calls at the same time;
/// then rounds of a fresh shared Finder / FinderRev / cloned iterator searched concurrently.
pub fn conc_child(path: &str, threads: usize, seed: u64, rounds: usize) {
    use std::sync::{Arc, Barrier, Mutex};
    let all: Arc<Mutex<Vec<Value>>> = Arc::new(Mutex::new(Vec::new()));
    let bar = Arc::new(Barrier::new(threads));
    let mut hs = Vec::new();
    for tid in 0..threads {
        let (all, bar) = (all.clone(), bar.clone());
        hs.push(std::thread::spawn(move || {
            let mut out = Vec::new();
            bar.wait();
            thread_calls(tid, seed, &mut out);
            all.lock().unwrap().extend(out);
        }));
    }
    for h in hs {
        h.join().unwrap();
    }
    // shared objects
    let mut r = Rng::new(seed ^ 0xC0FFEE);
    for round in 0..rounds {
        let nl = 2 + r.below(14);
        let needle: Vec<u8> = (0..nl).map(|_| b"abc"[r.below(3)]).collect();
        // short haystack (< 16 bytes: the Rabin-Karp route) and a longer one, both containing the needle
        let mut short = vec![b'x'; r.below(16usize.saturating_sub(nl).max(1))];
        short.extend_from_slice(&needle);
        short.truncate(15.max(nl));
        let mut long = vec![b'y'; 20 + r.below(60)];
        long.extend_from_slice(&needle);
        long.extend_from_slice(b"zz");
        long.extend_from_slice(&needle);
        let finder = memmem::Finder::new(&needle);
        let rfinder = memmem::FinderRev::new(&needle);
        // the low-level building blocks are shared as well, each fresh per round so that their first uses race
        let tw = memchr::arch::all::twoway::Finder::new(&needle);
        let rk = memchr::arch::all::rabinkarp::Finder::new(&needle);
        let pp = memchr::arch::all::packedpair::Finder::new(&needle);
        #[cfg(feature = "alloc")]
        let so = memchr::arch::all::shiftor::Finder::new(&needle);
        let mut it0 = finder.find_iter(&long);
        let first = it0.next();
        let bar = Barrier::new(threads);
        let res: Mutex<Vec<(usize, i64, i64, i64, Vec<usize>)>> = Mutex::new(Vec::new());
        let blocks: Mutex<Vec<(usize, &'static str, i64)>> = Mutex::new(Vec::new());
        std::thread::scope(|s| {
            for tid in 0..threads {
                let (finder, rfinder, it0, bar, res, short, long) = (&finder, &rfinder, &it0, &bar, &res, &short, &long);
                let (tw, rk, pp, blocks, needle) = (&tw, &rk, &pp, &blocks, &needle);
                #[cfg(feature = "alloc")]
                let so = &so;
                s.spawn(move || {
                    bar.wait();
                    let mut mine: Vec<(usize, &'static str, i64)> = Vec::new();
                    #[cfg(feature = "alloc")]
                    if let Some(so) = so {
                        mine.push((tid, "shiftor::Finder::find", opt_to_i(so.find(long))));
                    }
                    mine.push((tid, "twoway::Finder::find", opt_to_i(tw.find(long, needle))));
                    mine.push((tid, "rabinkarp::Finder::find", opt_to_i(rk.find(long, needle))));
                    if let Some(pp) = pp {
                        if let Some(c) = pp.find_prefilter(long) {
                            // a candidate is never past the first occurrence
                            mine.push((tid, "packedpair candidate <= first occurrence", if c <= first.unwrap_or(usize::MAX) { opt_to_i(first) } else { c as i64 }));
                        }
                    }
                    blocks.lock().unwrap().extend(mine);
                    let a = opt_to_i(finder.find(short));
                    let b = opt_to_i(finder.find(long));
                    let c = opt_to_i(rfinder.rfind(long));
                    let rest: Vec<usize> = it0.clone().take(long.len() + 2).collect();
                    res.lock().unwrap().push((tid, a, b, c, rest));
                });
            }
        });
        let res = res.into_inner().unwrap();
        let mut o_short = Vec::new();
        let mut o_long = Vec::new();
        for (tid, what, v) in blocks.into_inner().unwrap() {
            o_long.push(obs(&format!("t{tid}.shared {what} (round {round})"), "find", json!(v), 0, false));
        }
        for (tid, a, b, c, rest) in res {
            o_short.push(obs(&format!("t{tid}.shared Finder::find (round {round})"), "find", json!(a), 0, false));
            o_long.push(obs(&format!("t{tid}.shared Finder::find (round {round})"), "find", json!(b), 0, false));
            o_long.push(obs(&format!("t{tid}.shared FinderRev::rfind (round {round})"), "rfind", json!(c), 0, false));
            // the clone continues after the first match: prepend it to compare with the greedy sequence
            let mut full: Vec<usize> = first.into_iter().collect();
            full.extend(rest);
            o_long.push(obs(&format!("t{tid}.clone of a partially consumed find_iter (round {round})"), "fwd", json!(full), 0, false));
        }
        let mut g = all.lock().unwrap();
        g.push(json!({"k": "conc-shared", "n": needle, "h": short, "obs": o_short, "routes": [], "tid": -1}));
        g.push(json!({"k": "conc-shared", "n": needle, "h": long, "obs": o_long, "routes": [], "tid": -1}));
    }
    // shared finder with a long needle (Two-Way + adaptive prefilter): one thread makes the prefilter give up on a hostile
    // haystack (a candidate at every position) while the others are in the middle of searches that still have the match
    // ahead; a fresh finder per round, the start of the hostile search swept across the others' searches, many rounds per
    // (needle, haystack) pair so that one record carries all of them
    for pairno in 0..2usize {
        let nl = 33 + r.below(24);
        let mut needle: Vec<u8> = (0..nl).map(|_| b"ab"[r.below(2)]).collect();
        let i1 = r.below(nl);
        let mut i2 = r.below(nl);
        if i2 == i1 {
            i2 = (i1 + 1) % nl;
        }
        needle[i1] = b'Q';
        needle[i2] = b'Q';
        let hostile = vec![b'Q'; 600 + r.below(100)];
        // ~150 false candidates that each skip far enough for the prefilter to stay effective, then the only occurrence
        let mut target: Vec<u8> = Vec::new();
        for _ in 0..(if cfg!(miri) { 6 } else { 120 + r.below(60) }) {
            let mut near = needle.clone();
            let mut k = r.below(nl);
            while k == i1 || k == i2 {
                k = (k + 1) % nl;
            }
            near[k] = b'-';
            target.extend(near);
            target.extend(std::iter::repeat(b'-').take(r.below(24)));
        }
        target.extend_from_slice(&needle);
        target.extend(std::iter::repeat(b'-').take(r.below(4)));
        let mut hostile = hostile;
        if pairno == 0 {
            // the tight-loop shape: the two rare bytes are adjacent at the start of the needle, a false candidate every
            // 24..40 bytes is rejected at the first comparison, and the hostile haystack has a candidate every 2 bytes
            let (x, y) = ([b'q', b'Q', b'#'][r.below(3)], [b'z', b'Z', b'~'][r.below(3)]);
            needle = vec![x, y];
            needle.extend(std::iter::repeat(b'a').take(31 + r.below(20)));
            let gap = 22 + r.below(18);
            target.clear();
            for _ in 0..(if cfg!(miri) { 10 } else { 150 + r.below(100) }) {
                target.extend_from_slice(&[x, y]);
                target.extend(std::iter::repeat(b'-').take(gap));
            }
            target.extend_from_slice(&needle);
            hostile = [x, y].iter().copied().cycle().take(900 + r.below(200)).collect();
        }
        let mut seen_t: std::collections::BTreeSet<(usize, i64)> = Default::default();
        let mut seen_h: std::collections::BTreeSet<(usize, i64)> = Default::default();
        for round in 0..rounds * (if cfg!(miri) { 3 } else { 8 }) {
            let finder = memmem::Finder::new(&needle);
            let bar = Barrier::new(threads);
            let res: Mutex<Vec<(usize, bool, i64)>> = Mutex::new(Vec::new());
            let hostile_done = std::sync::atomic::AtomicBool::new(false);
            std::thread::scope(|s| {
                for tid in 0..threads {
                    let (finder, bar, res, hostile, target, hostile_done) = (&finder, &bar, &res, &hostile, &target, &hostile_done);
                    s.spawn(move || {
                        bar.wait();
                        if tid == 0 {
                            // sweep the start of the hostile search across the others' searches
                            for _ in 0..(round % 61) * 10 {
                                std::hint::spin_loop();
                            }
                            let a = opt_to_i(finder.find(hostile));
                            hostile_done.store(true, std::sync::atomic::Ordering::Release);
                            res.lock().unwrap().push((tid, true, a));
                        } else {
                            // keep searching until the hostile search has come and gone, so that it lands inside one of these
                            let mut mine = Vec::new();
                            for _ in 0..(if cfg!(miri) { 3 } else { 64 }) {
                                let was_done = hostile_done.load(std::sync::atomic::Ordering::Acquire);
                                mine.push(opt_to_i(finder.find(target)));
                                if was_done {
                                    break;
                                }
                            }
                            let mut g = res.lock().unwrap();
                            for b in mine {
                                g.push((tid, false, b));
                            }
                        }
                    });
                }
            });
            for (tid, hst, v) in res.into_inner().unwrap() {
                if hst {
                    seen_h.insert((tid, v));
                } else {
                    seen_t.insert((tid, v));
                }
            }
        }
        let o_t: Vec<Value> = seen_t.iter().map(|(tid, v)| obs(&format!("t{tid}.shared long-needle Finder::find while t0 exhausts the prefilter (pair {pairno})"), "find", json!(v), 0, false)).collect();
        let o_h: Vec<Value> = seen_h.iter().map(|(tid, v)| obs(&format!("t{tid}.shared long-needle Finder::find on the hostile haystack (pair {pairno})"), "find", json!(v), 0, false)).collect();
        let mut g = all.lock().unwrap();
        g.push(json!({"k": "conc-shared", "n": needle, "h": target, "obs": o_t, "routes": [], "tid": -1}));
        g.push(json!({"k": "conc-shared", "n": needle, "h": hostile, "obs": o_h, "routes": [], "tid": -1}));
    }
    let mut f = std::io::BufWriter::new(std::fs::File::create(path).unwrap());
    for v in all.lock().unwrap().iter() {
        writeln!(f, "{}", v).unwrap();
    }
    f.flush().unwrap();
}

/// Parent: run `procs` fresh child processes with varying thread counts; concatenate their traces.
pub fn conc(path: &str, procs: usize, seed: u64, rounds: usize, force: &str) -> (u64, Vec<String>) {
    let exe = std::env::current_exe().unwrap();
    let mut f = std::io::BufWriter::new(std::fs::File::create(path).unwrap());
    let mut n = 0u64;
    let mut failures = Vec::new();
    let tcounts = [2usize, 3, 4, 8, 16, 5, 12, 2, 32, 6];
    let mut children = Vec::new();
    for p in 0..procs {
        let part = format!("{path}.p{p}");
        let t = tcounts[p % tcounts.len()];
        let ch = std::process::Command::new(&exe)
            .args(["conc-child", "--trace", &part, "--threads", &t.to_string(), "--seed", &(seed.wrapping_add(p as u64)).to_string(), "--rounds", &rounds.to_string()])
            .env("MEMCHR_VERIF_FORCE", force)
            .stdout(std::process::Stdio::null())
            .spawn()
            .unwrap();
        children.push((ch, part, t));
        if children.len() >= 4 || p + 1 == procs {
            for (mut ch, part, t) in children.drain(..) {
                let st = ch.wait().unwrap();
                if !st.success() {
                    failures.push(format!("child with {t} threads ended with {st}"));
                }
                if let Ok(s) = std::fs::read_to_string(&part) {
                    for line in s.lines() {
                        writeln!(f, "{}", line).unwrap();
                        n += 1;
                    }
                }
                let _ = std::fs::remove_file(&part);
            }
        }
    }
    f.flush().unwrap();
    (n, failures)
}

// ---------------------------------------------------------------------------
// C06/C07 I->S: random call histories on real byte-search iterators (long
// haystacks, sparse and dense matches); validated by spec/Trace_MemchrIter.tla.

pub fn record_iter(path: &str, count: usize, seed: u64, force: &str) -> u64 {
    memchr::verif::set_force(force);
    let mut f = std::io::BufWriter::new(std::fs::File::create(path).unwrap());
    let mut r = Rng::new(seed ^ 0x17E2);
    let mut n = 0u64;
    for _ in 0..count {
        let nn = 1 + r.below(3);
        let mut needles: Vec<u8> = (0..nn).map(|_| r.byte()).collect();
        if nn == 3 && r.chance(1, 4) {
            needles[1] = needles[0];
        }
        let len = pick_len(&mut r, 400);
        let density = [0usize, 1, 3, 10, 50, 100][r.below(6)];
        let filler = needles[0] ^ 1 ^ if needles.contains(&(needles[0] ^ 1)) { 0x80 } else { 0 };
        let filler = if needles.contains(&filler) { needles[0].wrapping_add(101) } else { filler };
        let mut p = Placed::new(len, r.below(64), 0);
        for b in p.slice_mut().iter_mut() {
            *b = if r.below(100) < density { needles[r.below(nn)] } else { filler };
        }
        p.fill_slack(needles[0]);
        let h = p.slice();
        for sr in all_searchers(&needles, false) {
            let mut it = sr.iter(h);
            let mut ops = Vec::new();
            let mut nones = 0;
            let mut steps = 0;
            while nones < 3 && steps < 60 {
                steps += 1;
                let c = r.below(10);
                if c == 0 {
                    let cnt = it.clone_box().count_rest();
                    ops.push(json!({"op": "count", "ret": cnt, "lo": 0, "up": -1}));
                    continue;
                }
                let back = c % 2 == 0;
                let ret = opt_to_i(if back { it.next_back() } else { it.next() });
                if ret < 0 {
                    nones += 1;
                }
                let (lo, up) = it.size_hint();
                ops.push(json!({"op": if back { "next_back" } else { "next" }, "ret": ret, "lo": lo, "up": up.map_or(-1, |u| u as i64)}));
            }
            writeln!(f, "{}", json!({"k": "iter", "e": sr.backend(), "n": needles, "h": h, "ops": ops})).unwrap();
            n += 1;
        }
    }
    f.flush().unwrap();
    n
}

// ---------------------------------------------------------------------------
// C16 I->S: random operation histories on real finder / iterator objects at
// the real constants (needles > 32 bytes, haystacks that exhaust the adaptive
// prefilter between other searches); validated by spec/Trace_Objects.tla.

#[cfg(feature = "alloc")]
pub fn record_obj(path: &str, count: usize, seed: u64, force: &str) -> u64 {
    memchr::verif::set_force(force);
    let mut f = std::io::BufWriter::new(std::fs::File::create(path).unwrap());
    let mut r = Rng::new(seed ^ 0x0B7EC7);
    for _ in 0..count {
        let n = structured_needle(&mut r);
        let mut hs: Vec<Vec<u8>> = Vec::new();
        // haystack 1: several occurrences; 2: random structured; 3: dense false candidates (drives the prefilter inert)
        let mut h1 = Vec::new();
        for _ in 0..(2 + r.below(4)) {
            h1.extend(structured_haystack(&mut r, &n).into_iter().take(40));
            h1.extend_from_slice(&n);
        }
        hs.push(h1);
        hs.push(structured_haystack(&mut r, &n));
        let dense: Vec<u8> = (0..(100 + r.below(300))).map(|i| if n.is_empty() { b'x' } else { n[(i * 7 + i / 3) % n.len()] }).collect();
        hs.push(dense);
        let nops = 8 + r.below(30);
        let mut ops: Vec<Value> = Vec::new();
        {
            let buf = n.clone();
            let fw = memmem::Finder::new(&buf);
            let rv = memmem::FinderRev::new(&buf);
            let mut it = memmem::find_iter(&hs[0], &buf);
            let mut rit = memmem::rfind_iter(&hs[0], &buf);
            let mut cl: Option<memmem::FindIter<'_, '_>> = None;
            let mut rcl: Option<memmem::FindRevIter<'_, '_>> = None;
            let cut = r.below(nops);
            let mut i = 0;
            macro_rules! step {
                ($fw:expr, $rv:expr, $it:expr, $rit:expr, $cl:expr, $rcl:expr) => {{
                    let c = r.below(10);
                    let k = 1 + r.below(3);
                    let (op, kk, ret): (&str, usize, i64) = match c {
                        0 | 1 => ("find", k, opt_to_i($fw.find(&hs[k - 1]))),
                        2 => ("rfind", k, opt_to_i($rv.rfind(&hs[k - 1]))),
                        3 | 4 => ("next", 0, opt_to_i($it.next())),
                        5 => ("rnext", 0, opt_to_i($rit.next())),
                        6 => {
                            if $cl.is_none() {
                                $cl = Some($it.clone());
                                ("clone", 0, 0)
                            } else {
                                ("clone_next", 0, opt_to_i($cl.as_mut().unwrap().next()))
                            }
                        }
                        7 => {
                            if $rcl.is_none() {
                                $rcl = Some($rit.clone());
                                ("rclone", 0, 0)
                            } else {
                                ("rclone_next", 0, opt_to_i($rcl.as_mut().unwrap().next()))
                            }
                        }
                        8 => ("needle", 0, ($fw.needle() == &n[..] && $rv.needle() == &n[..]) as i64),
                        _ => ("find", 3, opt_to_i($fw.find(&hs[2]))),
                    };
                    ops.push(json!({"op": op, "k": kk, "ret": ret}));
                }};
            }
            while i < cut {
                step!(fw, rv, it, rit, cl, rcl);
                i += 1;
            }
            // convert everything to the owned form, then overwrite and drop the original needle buffer
            ops.push(json!({"op": "into_owned", "k": 0, "ret": 0}));
            let (fw, rv, mut it, mut rit) = (fw.into_owned(), rv.into_owned(), it.into_owned(), rit.into_owned());
            let mut cl = cl.map(|x| x.into_owned());
            let mut rcl = rcl.map(|x| x.into_owned());
            let mut buf = buf;
            for x in buf.iter_mut() {
                *x = x.wrapping_add(1);
            }
            drop(buf);
            ops.push(json!({"op": "drop_buffer", "k": 0, "ret": 0}));
            while i < nops {
                step!(fw, rv, it, rit, cl, rcl);
                i += 1;
            }
        }
        writeln!(f, "{}", json!({"k": "obj", "n": n, "hs": hs, "ops": ops})).unwrap();
    }
    f.flush().unwrap();
    count as u64
}

#[cfg(not(feature = "alloc"))]
pub fn record_obj(_path: &str, _count: usize, _seed: u64, _force: &str) -> u64 {
    0
}

// ---------------------------------------------------------------------------
// C19 I->S at the real scan cap: pair selection on needles of length 0..600
// under a table of rankers, and the whole with_indices acceptance matrix.

pub fn record_pair(path: &str, count: usize, seed: u64) -> (u64, Vec<String>) {
    let mut panics: Vec<String> = Vec::new();
    use memchr::arch::all::packedpair::Pair;
    let mut f = std::io::BufWriter::new(std::fs::File::create(path).unwrap());
    let mut r = Rng::new(seed ^ 0x9A12);
    let mut nrec = 0u64;
    for i in 0..count {
        let len = match r.below(6) {
            0 => r.below(4),
            1 => 250 + r.below(12),
            2 => 600,
            _ => r.below(400),
        };
        let n: Vec<u8> = match r.below(4) {
            0 => vec![b'a'; len],
            1 => (0..len).map(|k| if k % 2 == 0 { b'a' } else { b'b' }).collect(),
            2 => (0..len).map(|k| k as u8).collect(),
            _ => {
                // common bytes with a rare byte placed around offset 254/255/256
                let mut v = vec![b'e'; len];
                if len > 0 {
                    let p = (250 + r.below(10)).min(len - 1);
                    v[p] = b'Q';
                    let p2 = r.below(len);
                    v[p2] = b'z';
                }
                v
            }
        };
        let (_, table) = crate::r_mm::ranker(i, &n, seed.wrapping_add(i as u64));
        let ranks: Vec<u8> = table.0.to_vec();
        // a panic of the code under test is data: recorded, decided by the validator (a panicking selection yields no valid pair)
        let sel = match guard(|| Pair::with_ranker(&n, &table)) {
            Ok(s) => s,
            Err(m) => {
                panics.push(format!("Pair::with_ranker panicked on a needle of {} bytes: {m}", n.len()));
                writeln!(f, "{}", json!({"k": "ranker", "n": n, "rank": ranks, "none": false, "i1": -1, "i2": -1, "fi1": -1, "fi2": -1, "panic": m})).unwrap();
                nrec += 1;
                continue;
            }
        };
        let (none, i1, i2) = match &sel {
            None => (true, 0i64, 0i64),
            Some(p) => (false, p.index1() as i64, p.index2() as i64),
        };
        let (mut fi1, mut fi2) = (-1i64, -1i64);
        if let Some(p) = sel {
            // building finders from a valid pair must not panic, whatever the offsets (up to 254)
            match guard(|| memchr::arch::all::packedpair::Finder::with_pair(&n, p).map(|fd| (fd.pair().index1() as i64, fd.pair().index2() as i64))) {
                Ok(Some((a, b))) => {
                    fi1 = a;
                    fi2 = b;
                }
                Ok(None) => {}
                Err(m) => {
                    panics.push(format!("all::packedpair::Finder::with_pair panicked for offsets ({i1},{i2}) on a needle of {} bytes: {m}", n.len()));
                    fi1 = -2;
                }
            }
            #[cfg(verif_x86)]
            for which in ["sse2", "avx2"] {
                let r = guard(|| {
                    if which == "sse2" {
                        memchr::arch::x86_64::sse2::packedpair::Finder::with_pair(&n, p).map(|fd| (fd.pair().index1() as i64, fd.pair().index2() as i64, fd.min_haystack_len()))
                    } else {
                        memchr::arch::x86_64::avx2::packedpair::Finder::with_pair(&n, p).map(|fd| (fd.pair().index1() as i64, fd.pair().index2() as i64, fd.min_haystack_len()))
                    }
                });
                match r {
                    Ok(Some((a, b, _))) => {
                        if a != fi1 || b != fi2 {
                            fi1 = a;
                            fi2 = b;
                        }
                    }
                    Ok(None) => {}
                    Err(m) => {
                        panics.push(format!("{which}::packedpair::Finder::with_pair panicked for offsets ({i1},{i2}) on a needle of {} bytes: {m}", n.len()));
                        fi1 = -2;
                    }
                }
            }
            // and the meta searcher built through the heuristic
            if let Err(m) = guard(|| memmem::Finder::new(&n).find(b"")) {
                panics.push(format!("memmem::Finder::new panicked on a needle of {} bytes: {m}", n.len()));
            }
        }
        writeln!(f, "{}", json!({"k": "ranker", "n": n, "rank": ranks, "none": none, "i1": i1, "i2": i2, "fi1": fi1, "fi2": fi2})).unwrap();
        nrec += 1;
    }
    for &len in &[0usize, 1, 2, 3, 254, 255, 256, 600] {
        let n = vec![b'x'; len];
        for a in 0..=255u8 {
            let acc: Vec<u8> = (0..=255u8).filter(|&b| guard(|| Pair::with_indices(&n, a, b).map_or(false, |p| p.index1() == a && p.index2() == b)).unwrap_or(false)).collect();
            writeln!(f, "{}", json!({"k": "indices", "len": len, "a": a, "acc": acc})).unwrap();
            nrec += 1;
        }
    }
    f.flush().unwrap();
    (nrec, panics)
}
