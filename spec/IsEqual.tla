------------------------------ MODULE IsEqual ------------------------------
(***************************************************************************)
(* L-layer model of arch::all::{is_equal_raw, is_equal, is_prefix,         *)
(* is_suffix} (src/arch/all/mod.rs).  is_equal_raw(x, y, n):               *)
(*   while n >= 4: unaligned 4-byte load of each side, compare;            *)
(*   if n >= 2: one 2-byte load; if n > 0: one byte.                       *)
(* Loads are logged as <<size, offset>> (the same offsets on both sides).  *)
(***************************************************************************)
EXTENDS Bytes

IE_Init0 == [pc |-> "w4", off |-> 0, res |-> TRUE, loads |-> <<>>, steps |-> 0, arms |-> {}]

IE_Same(x, y, off, k) == \A i \in 0..k - 1 : At(x, off + i) = At(y, off + i)

\* one loop iteration / one tail comparison of is_equal_raw over n = Len(x) = Len(y) bytes
IE_Step(x, y, st) ==
  LET n == Len(x) - st.off IN
  CASE st.pc = "w4" ->
         IF n >= 4
         THEN IF IE_Same(x, y, st.off, 4)
              THEN [st EXCEPT !.off = @ + 4, !.loads = Append(@, <<4, st.off>>), !.steps = @ + 1, !.arms = @ \cup {"w4_eq"}]
              ELSE [st EXCEPT !.pc = "done", !.res = FALSE, !.loads = Append(@, <<4, st.off>>), !.steps = @ + 1, !.arms = @ \cup {"w4_ne"}]
         ELSE [st EXCEPT !.pc = "w2"]
    [] st.pc = "w2" ->
         IF n >= 2
         THEN IF IE_Same(x, y, st.off, 2)
              THEN [st EXCEPT !.pc = "w1", !.off = @ + 2, !.loads = Append(@, <<2, st.off>>), !.steps = @ + 1, !.arms = @ \cup {"w2_eq"}]
              ELSE [st EXCEPT !.pc = "done", !.res = FALSE, !.loads = Append(@, <<2, st.off>>), !.steps = @ + 1, !.arms = @ \cup {"w2_ne"}]
         ELSE [st EXCEPT !.pc = "w1"]
    [] st.pc = "w1" ->
         IF n > 0
         THEN [st EXCEPT !.pc = "done", !.res = IE_Same(x, y, st.off, 1), !.off = @ + 1, !.loads = Append(@, <<1, st.off>>),
                         !.steps = @ + 1, !.arms = @ \cup {IF IE_Same(x, y, st.off, 1) THEN "w1_eq" ELSE "w1_ne"}]
         ELSE [st EXCEPT !.pc = "done", !.arms = @ \cup {"w_none"}]

RECURSIVE IE_Run(_, _, _)
IE_Run(x, y, st) == IF st.pc = "done" THEN st ELSE IE_Run(x, y, IE_Step(x, y, st))

\* F-layer: the safe wrappers
IE_IsEqual(x, y) == IF Len(x) # Len(y) THEN FALSE ELSE IE_Run(x, y, IE_Init0).res
IE_IsPrefix(h, n) == Len(n) <= Len(h) /\ IE_IsEqual(Take(h, Len(n)), n)
IE_IsSuffix(h, n) == Len(n) <= Len(h) /\ IE_IsEqual(Drop(h, Len(h) - Len(n)), n)

IE_LoadsOK(x, st) == \A i \in 1..Len(st.loads) : InBounds(st.loads[i][2], st.loads[i][1], Len(x))
IE_StepsLinear(x, st) == 4 * st.steps <= Len(x) + 8
=============================================================================
