----------------------------- MODULE PackedPair -----------------------------
(***************************************************************************)
(* L-layer model of generic::packedpair::Finder<V>::{find, find_prefilter} *)
(* (src/arch/generic/packedpair.rs) and of the portable                    *)
(* arch::all::packedpair::Finder::find_prefilter.                          *)
(* in = [hay, needle, i1, i2, vb]; vb = vector bytes; MASKKIND selects the *)
(* formula of all_zeros_except_least_significant as the code has it:       *)
(*   "sensible": !((1 << n) - 1)            keeps lanes k >= n             *)
(*   "neon"    : !(((1 << n) << 2) - 1), lane k at bit 4k+3: keeps lanes   *)
(*               with 4k+3 >= n+2, i.e. it UNDER-masks the overlap.  TLC   *)
(*               shows this is benign for results (see DESIGN.md 2.1).     *)
(***************************************************************************)
EXTENDS Pair

CONSTANT MASKKIND

PP_MinLen(vb, n, i1, i2) == Max2(Len(n), Max2(i1, i2) + vb)
PP_MinLenIn(in) == PP_MinLen(in.vb, in.needle, in.i1, in.i2)
PP_PairLanes(in, cur) ==
  {k \in 0..in.vb - 1 : At(in.hay, cur + k + in.i1) = At(in.needle, in.i1) /\ At(in.hay, cur + k + in.i2) = At(in.needle, in.i2)}
PP_Kept(vb, n) == IF MASKKIND = "sensible" THEN {k \in 0..vb - 1 : k >= n}
                  ELSE {k \in 0..vb - 1 : 4 * k + 3 >= n + 2}

\* find_in_chunk: candidate lanes ascending; stop with None once a candidate is past end - |needle|
RECURSIVE PP_InChunk(_, _, _, _, _)
PP_InChunk(in, cur, lanes, acc, cmps) ==
  IF lanes = {} THEN [r |-> -1, confirms |-> acc, cmps |-> cmps]
  ELSE LET k == SetMin(lanes) IN
       IF Len(in.hay) - Len(in.needle) < cur + k THEN [r |-> -1, confirms |-> acc, cmps |-> cmps]
       ELSE LET c == IE_Run(in.needle, Slice(in.hay, cur + k, cur + k + Len(in.needle)), IE_Init0) IN
            IF c.res THEN [r |-> k, confirms |-> acc + 1, cmps |-> cmps + c.steps]
            ELSE PP_InChunk(in, cur, lanes \ {k}, acc + 1, cmps + c.steps)

PP_Init0 == [pc |-> "assert", cur |-> 0, res |-> -2, loads |-> <<>>, confirms |-> 0, cmps |-> 0, chunks |-> 0, panic |-> FALSE, arms |-> {}, bad |-> FALSE]

PP_Step(in, st) ==
  LET hl == Len(in.hay)  ml == PP_MinLenIn(in)  max == hl - ml
      lds(c) == st.loads \o <<c + in.i1, c + in.i2>> IN
  CASE st.pc = "assert" -> IF hl < ml THEN [st EXCEPT !.pc = "done", !.panic = TRUE, !.arms = @ \cup {"panic"}] ELSE [st EXCEPT !.pc = "loop"]
    [] st.pc = "loop" ->
         IF st.cur <= max
         THEN LET c == PP_InChunk(in, st.cur, PP_PairLanes(in, st.cur), 0, 0) IN
              IF c.r >= 0 THEN [st EXCEPT !.pc = "done", !.res = st.cur + c.r, !.loads = lds(st.cur), !.confirms = @ + c.confirms,
                                          !.cmps = @ + c.cmps, !.chunks = @ + 1, !.arms = @ \cup {"loop_hit"}]
              ELSE [st EXCEPT !.cur = st.cur + in.vb, !.loads = lds(st.cur), !.confirms = @ + c.confirms, !.cmps = @ + c.cmps,
                              !.chunks = @ + 1, !.arms = @ \cup {"loop_miss"}]
         ELSE [st EXCEPT !.pc = "tail"]
    [] st.pc = "tail" ->
         IF st.cur < hl
         THEN IF hl - st.cur < Len(in.needle) THEN [st EXCEPT !.pc = "done", !.res = -1, !.arms = @ \cup {"tail_short"}]
              ELSE LET overlap == st.cur - max
                       c == PP_InChunk(in, max, PP_PairLanes(in, max) \cap PP_Kept(in.vb, overlap), 0, 0) IN
                   [st EXCEPT !.pc = "done", !.cur = max, !.loads = lds(max), !.confirms = @ + c.confirms, !.cmps = @ + c.cmps,
                              !.chunks = @ + 1, !.res = IF c.r >= 0 THEN max + c.r ELSE -1,
                              !.arms = @ \cup {IF c.r >= 0 THEN "tail_hit" ELSE "tail_miss"},
                              !.bad = @ \/ ~(overlap > 0 /\ overlap < in.vb) \/ ~(hl - st.cur < ml)]
         ELSE [st EXCEPT !.pc = "done", !.res = -1, !.arms = @ \cup {"tail_none"}]
RECURSIVE PP_Run(_, _)
PP_Run(in, st) == IF st.pc = "done" THEN st ELSE PP_Run(in, PP_Step(in, st))
PP_Find(in) == PP_Run(in, PP_Init0)

\* find_prefilter: same loop, first candidate lane unconfirmed, tail chunk unmasked
PP_PStep(in, st) ==
  LET hl == Len(in.hay)  ml == PP_MinLenIn(in)  max == hl - ml
      lds(c) == st.loads \o <<c + in.i1, c + in.i2>> IN
  CASE st.pc = "assert" -> IF hl < ml THEN [st EXCEPT !.pc = "done", !.panic = TRUE, !.arms = @ \cup {"panic"}] ELSE [st EXCEPT !.pc = "loop"]
    [] st.pc = "loop" ->
         IF st.cur <= max
         THEN LET L == PP_PairLanes(in, st.cur) IN
              IF L # {} THEN [st EXCEPT !.pc = "done", !.res = st.cur + SetMin(L), !.loads = lds(st.cur), !.chunks = @ + 1, !.arms = @ \cup {"loop_hit"}]
              ELSE [st EXCEPT !.cur = st.cur + in.vb, !.loads = lds(st.cur), !.chunks = @ + 1, !.arms = @ \cup {"loop_miss"}]
         ELSE [st EXCEPT !.pc = "tail"]
    [] st.pc = "tail" ->
         IF st.cur < hl
         THEN LET L == PP_PairLanes(in, max) IN
              [st EXCEPT !.pc = "done", !.cur = max, !.loads = lds(max), !.chunks = @ + 1, !.res = IF L # {} THEN max + SetMin(L) ELSE -1,
                         !.arms = @ \cup {IF L # {} THEN "tail_hit" ELSE "tail_miss"}]
         ELSE [st EXCEPT !.pc = "done", !.res = -1, !.arms = @ \cup {"tail_none"}]
RECURSIVE PP_PRun(_, _)
PP_PRun(in, st) == IF st.pc = "done" THEN st ELSE PP_PRun(in, PP_PStep(in, st))
PP_Prefilter(in) == PP_PRun(in, PP_Init0)

PP_LoadsOK(in, st) == \A k \in 1..Len(st.loads) : InBounds(st.loads[k], in.vb, Len(in.hay))

\* F-layer meaning of the vector prefilter: least candidate position with both pair bytes present
PP_PrefilterF(in) ==
  LET top == Len(in.hay) - PP_MinLenIn(in) + in.vb - 1
      P == {c \in 0..top : At(in.hay, c + in.i1) = At(in.needle, in.i1) /\ At(in.hay, c + in.i2) = At(in.needle, in.i2)}
  IN IF P = {} THEN -1 ELSE SetMin(P)

\* the portable prefilter (arch::all::packedpair::Finder::find_prefilter): memchr on byte1 then check byte2
RECURSIVE PP_Portable(_, _, _)
PP_Portable(in, i, calls) ==
  LET r == FirstMatch(Drop(in.hay, i), {At(in.needle, in.i1)}) IN
  IF i > Len(in.hay) \/ r < 0 THEN [res |-> -1, calls |-> calls + 1]
  ELSE LET found == i + r IN
       IF found < in.i1 THEN PP_Portable(in, found + 1, calls + 1)
       ELSE LET a1 == found - in.i1  a2 == a1 + in.i2 IN
            IF a2 < Len(in.hay) /\ At(in.hay, a2) = At(in.needle, in.i2) THEN [res |-> a1, calls |-> calls + 1]
            ELSE PP_Portable(in, found + 1, calls + 1)
PP_PortablePrefilter(in) == PP_Portable(in, 0, 0)

\* P-layer meaning of a prefilter result (C11)
PP_PrefilterSound(in, res) ==
  LET f == FindSub(in.hay, in.needle) IN
  /\ (f >= 0 => res >= 0 /\ res <= f)
  /\ (res >= 0 => /\ res + in.i1 < Len(in.hay) /\ res + in.i2 < Len(in.hay)
                  /\ At(in.hay, res + in.i1) = At(in.needle, in.i1)
                  /\ At(in.hay, res + in.i2) = At(in.needle, in.i2))
=============================================================================
