//! S->I replay of MC_TwoWay behaviours on twoway::{Finder, FinderRev}: result
//! (verdict) and, as conformance, the preprocessing (critical position and
//! shift parsed from the Debug output), the number of preprocessing steps and
//! the number of search steps counted by the H7 hook, which the L-model
//! mirrors exactly (`ticks`).
use crate::util::*;
use memchr::arch::all::twoway;
use memchr::verif as hook;
use serde_json::{json, Value};

fn parse_dbg(s: &str) -> Option<(usize, bool, usize)> {
    let crit = s.split("critical_pos: ").nth(1)?.split(|c: char| !c.is_ascii_digit()).next()?.parse().ok()?;
    let small = s.contains("Small");
    let key = if small { "period: " } else { "shift: Large { shift: " };
    let val = s.split(key).nth(1)?.split(|c: char| !c.is_ascii_digit()).next()?.parse().ok()?;
    Some((crit, small, val))
}

pub fn replay(vs: &[Value], rep: &Report, threads: usize) {
    let idx: Vec<usize> = (0..vs.len()).collect();
    par_chunks(&idx, threads, |_, ch| {
        let mut cnt = Counts::default();
        for &i in ch {
            let v = &vs[i];
            let modk = get_u(v, "modk");
            // symbols in the same class modulo MODK must be bytes in the same class modulo 64 (the code's approximate byte set)
            let map: [u8; 3] = if modk == 2 { [0x02, 0x03, 0x42] } else { [b'a', b'b', b'c'] }; // order preserving (suffix comparisons) and congruent classes
            let n: Vec<u8> = get_bytes(v, "n").iter().map(|&c| map[c as usize]).collect();
            let h: Vec<u8> = get_bytes(v, "h").iter().map(|&c| map[c as usize]).collect();
            let ctx = |e: &str| json!({"vector": v, "run": {"entry": e}});
            // forward
            hook::start(&[]);
            let f = guard(|| twoway::Finder::new(&n));
            let (_, tp) = hook::stop();
            if let Ok(f) = f {
                hook::start(&[]);
                let r = guard(|| opt_to_i(f.find(&h, &n)));
                let (_, ts) = hook::stop();
                cnt.add("tw_exec", 1);
                match r {
                    Err(m) => rep.finding(Class::Panic, &format!("twoway::Finder::find panicked: {m}"), ctx("find")),
                    Ok(g) => {
                        if g != get_i(v, "find") {
                            rep.finding(Class::Result, &format!("twoway::Finder::find returned {g}, oracle {}", get_i(v, "find")), ctx("find"));
                        }
                    }
                }
                let mut ok = true;
                if let Some((crit, small, val)) = parse_dbg(&format!("{:?}", f)) {
                    if (crit, small, val) != (get_u(v, "fcrit"), v["fsmall"].as_bool().unwrap(), get_u(v, "fval")) {
                        ok = false;
                        rep.finding(Class::Drift, &format!("forward preprocessing (crit {crit}, small {small}, shift/period {val}) differs from the L-model"), ctx("Finder::new"));
                    }
                }
                if tp[hook::T_PREP] != get_u(v, "pfsteps") as u64 {
                    ok = false;
                    rep.finding(Class::Drift, &format!("forward preprocessing took {} suffix-scan steps, L-model {}", tp[hook::T_PREP], get_u(v, "pfsteps")), ctx("Finder::new"));
                }
                if !n.is_empty() && ts[hook::T_TW] != get_u(v, "fticks") as u64 {
                    ok = false;
                    rep.finding(Class::Drift, &format!("forward search counted {} steps, L-model {}", ts[hook::T_TW], get_u(v, "fticks")), ctx("find"));
                }
                cnt.add(if ok { "conform_twoway_fwd" } else { "drift_twoway_fwd" }, 1);
            } else {
                rep.finding(Class::Panic, "twoway::Finder::new panicked", ctx("Finder::new"));
            }
            // reverse
            hook::start(&[]);
            let f = guard(|| twoway::FinderRev::new(&n));
            let (_, tp) = hook::stop();
            if let Ok(f) = f {
                hook::start(&[]);
                let r = guard(|| opt_to_i(f.rfind(&h, &n)));
                let (_, ts) = hook::stop();
                cnt.add("tw_exec", 1);
                match r {
                    Err(m) => rep.finding(Class::Panic, &format!("twoway::FinderRev::rfind panicked: {m}"), ctx("rfind")),
                    Ok(g) => {
                        if g != get_i(v, "rfind") {
                            rep.finding(Class::Result, &format!("twoway::FinderRev::rfind returned {g}, oracle {}", get_i(v, "rfind")), ctx("rfind"));
                        }
                    }
                }
                let mut ok = true;
                if let Some((crit, small, val)) = parse_dbg(&format!("{:?}", f)) {
                    if (crit, small, val) != (get_u(v, "rcrit"), v["rsmall"].as_bool().unwrap(), get_u(v, "rval")) {
                        ok = false;
                        rep.finding(Class::Drift, &format!("reverse preprocessing (crit {crit}, small {small}, shift/period {val}) differs from the L-model"), ctx("FinderRev::new"));
                    }
                }
                if tp[hook::T_PREP] != get_u(v, "prsteps") as u64 {
                    ok = false;
                    rep.finding(Class::Drift, &format!("reverse preprocessing took {} suffix-scan steps, L-model {}", tp[hook::T_PREP], get_u(v, "prsteps")), ctx("FinderRev::new"));
                }
                if !n.is_empty() && ts[hook::T_TW] != get_u(v, "rticks") as u64 {
                    ok = false;
                    rep.finding(Class::Drift, &format!("reverse search counted {} steps, L-model {}", ts[hook::T_TW], get_u(v, "rticks")), ctx("rfind"));
                }
                cnt.add(if ok { "conform_twoway_rev" } else { "drift_twoway_rev" }, 1);
            }
            cnt.add("vectors", 1);
        }
        rep.merge_counts(&cnt.0);
    });
    for v in vs.iter().rev().take(2) {
        rep.sample(v.clone());
    }
}
