--------------------------- MODULE FindIterUnbounded ---------------------------
(***************************************************************************)
(* Unbounded supplement to Memmem.FI_Next (C08), proved with TLAPS: for an *)
(* ARBITRARY haystack length N, needle length NL and occurrence set Occ,   *)
(* the iterator  next: r = least occurrence >= pos; pos := r + max(NL, 1)  *)
(* yields exactly the greedy non-overlapping sequence:                     *)
(*   - only occurrences, strictly ascending, pairwise non-overlapping,     *)
(*   - every occurrence before the cursor is either yielded or overlaps an *)
(*     earlier yielded one (so nothing that greedy would take is skipped), *)
(*   - once None is returned, that holds for ALL occurrences, and every    *)
(*     later call returns None again.                                      *)
(* Leftmost-occurrence search itself (r = least occurrence >= pos) is what *)
(* C03 establishes; here it is the assumption on each step.                *)
(***************************************************************************)
EXTENDS Integers, TLAPS

CONSTANTS N, NL, Occ
Step == IF NL >= 1 THEN NL ELSE 1
ASSUME NAssump == N \in Nat /\ NL \in Nat
ASSUME OAssump == Occ \subseteq 0..N /\ \A o \in Occ : o + NL <= N

VARIABLES pos, Y, finished

vars == <<pos, Y, finished>>

Init == pos = 0 /\ Y = {} /\ finished = FALSE

Some == /\ pos <= N
        /\ \E r \in Occ : /\ r >= pos /\ \A q \in Occ : q >= pos => r <= q
                          /\ Y' = Y \cup {r} /\ pos' = r + Step
        /\ finished' = finished
None == /\ (pos > N \/ \A q \in Occ : q < pos)
        /\ finished' = TRUE /\ UNCHANGED <<pos, Y>>
Next == Some \/ None
Spec == Init /\ [][Next]_vars

Covered(o) == o \in Y \/ \E y \in Y : y < o /\ o < y + Step
Inv == /\ pos \in Nat /\ Y \subseteq Occ /\ finished \in BOOLEAN
       /\ \A y \in Y : y + Step <= pos
       /\ \A y1, y2 \in Y : y1 < y2 => y1 + Step <= y2
       /\ \A o \in Occ : o < pos => Covered(o)
       /\ (finished => \A o \in Occ : Covered(o))
       /\ (finished => (pos > N \/ \A q \in Occ : q < pos))

LEMMA StepPos == Step \in Nat /\ Step >= 1 /\ Step >= NL
  BY NAssump DEF Step

THEOREM InitInv == Init => Inv
  BY NAssump, OAssump DEF Init, Inv, Covered

THEOREM NextInv == Inv /\ [Next]_vars => Inv'
<1> SUFFICES ASSUME Inv, [Next]_vars PROVE Inv'
  OBVIOUS
<1> USE NAssump, OAssump, StepPos
<1>1. CASE Some
  <2> PICK r \in Occ : /\ r >= pos /\ \A q \in Occ : q >= pos => r <= q
                       /\ Y' = Y \cup {r} /\ pos' = r + Step
    BY <1>1 DEF Some
  <2>0. r \in Nat /\ finished' = finished /\ pos <= N
    BY <1>1 DEF Some
  <2>1. pos' \in Nat /\ Y' \subseteq Occ /\ finished' \in BOOLEAN
    BY <2>0 DEF Inv
  <2>2. \A y \in Y' : y + Step <= pos'
    BY <2>0 DEF Inv
  <2>3. \A y1, y2 \in Y' : y1 < y2 => y1 + Step <= y2
    BY <2>0 DEF Inv
  <2>4. \A o \in Occ : o < pos' => Covered(o)'
    <3> SUFFICES ASSUME NEW o \in Occ, o < pos' PROVE Covered(o)'
      OBVIOUS
    <3>1. CASE o < pos
      BY <3>1 DEF Inv, Covered
    <3>2. CASE o >= pos
      <4>1. r <= o /\ o < r + Step
        BY <3>2
      <4> QED BY <4>1 DEF Covered
    <3> QED BY <3>1, <3>2, <2>0 DEF Inv
  <2>5. finished' => \A o \in Occ : Covered(o)'
    <3> SUFFICES ASSUME finished PROVE FALSE
      BY <2>0
    <3> QED BY <2>0 DEF Inv
  <2>6. finished' => (pos' > N \/ \A q \in Occ : q < pos')
    BY <2>5, <2>0 DEF Inv
  <2> QED BY <2>1, <2>2, <2>3, <2>4, <2>5, <2>6 DEF Inv
<1>2. CASE None
  <2>1. \A o \in Occ : o < pos
    BY <1>2 DEF None, Inv
  <2> QED BY <1>2, <2>1 DEF None, Inv, Covered
<1>3. CASE UNCHANGED vars
  BY <1>3 DEF vars, Inv, Covered
<1> QED BY <1>1, <1>2, <1>3 DEF Next

THEOREM Safety == Spec => []Inv
  BY InitInv, NextInv, PTL DEF Spec
=============================================================================
