------------------------ MODULE PackedPairFindUnbounded ------------------------
(***************************************************************************)
(* Unbounded supplement to PackedPair (C12/C05), proved with TLAPS: the    *)
(* generic packed-pair `find` for arbitrary vector width V, needle length  *)
(* NL >= 2, pair offsets, haystack length N >= min_haystack_len.           *)
(*   F = start positions of real occurrences (each is a candidate position *)
(*       and f + NL <= N)                                                  *)
(*   loop : while cur <= Max: the candidates of chunk [cur, cur + V) are   *)
(*          confirmed in ascending order; the first real occurrence is     *)
(*          returned; a candidate past N - NL ends the search with None    *)
(*   tail : if cur < N: if N - cur < NL then None, else the chunk at Max   *)
(*          restricted to a set of lanes K that contains AT LEAST every    *)
(*          lane >= overlap = cur - Max  (the sensible mask keeps exactly   *)
(*          those; the NEON formula keeps more -- VecOps -- which this      *)
(*          theorem shows to be harmless)                                  *)
(* Theorem: the result is the least element of F, or None iff F is empty;  *)
(* both vector loads of every chunk lie inside the haystack.               *)
(* The chunk step is abstracted to its effect: "return the least           *)
(* occurrence among the lanes examined, if any" -- confirmation of a       *)
(* candidate by is_equal_raw is exact (IsEqual), and candidates are        *)
(* visited in ascending order (VecOps: first_offset / clear lowest bit).   *)
(***************************************************************************)
EXTENDS Integers, TLAPS

CONSTANTS V, NL, I1, I2, N, F, K
MaxI == IF I1 > I2 THEN I1 ELSE I2
MinLen == IF NL > MaxI + V THEN NL ELSE MaxI + V
Max == N - MinLen
ASSUME VAssump == V \in Nat /\ V >= 1
ASSUME NLAssump == NL \in Nat /\ NL >= 2
ASSUME IAssump == I1 \in 0..(NL - 1) /\ I2 \in 0..(NL - 1) /\ I1 # I2
ASSUME NAssump == N \in Nat /\ N >= MinLen
ASSUME FAssump == F \subseteq Int /\ \A f \in F : 0 <= f /\ f + NL <= N
\* K(overlap) = the lanes of the tail chunk that the mask keeps: at least the lanes >= overlap
ASSUME KAssump == \A o \in Int : K[o] \subseteq 0..(V - 1) /\ \A k \in 0..(V - 1) : k >= o => k \in K[o]

VARIABLES pc, cur, res, lo1, lo2

vars == <<pc, cur, res, lo1, lo2>>

Occ(a, b) == \E f \in F : a <= f /\ f < b
FirstOcc(r, a, b) == r \in F /\ a <= r /\ r < b /\ \A q \in F : (a <= q /\ q < b) => r <= q
\* occurrences of the tail chunk among the kept lanes
OccK(o) == \E f \in F : Max <= f /\ f < Max + V /\ (f - Max) \in K[o]
FirstOccK(r, o) == r \in F /\ Max <= r /\ r < Max + V /\ (r - Max) \in K[o]
                   /\ \A q \in F : (Max <= q /\ q < Max + V /\ (q - Max) \in K[o]) => r <= q

Init == pc = "loop" /\ cur = 0 /\ res = -2 /\ lo1 = 0 /\ lo2 = 0
Loop == /\ pc = "loop"
        /\ IF cur <= Max
           THEN /\ lo1' = cur + I1 /\ lo2' = cur + I2
                /\ IF Occ(cur, cur + V)
                   THEN /\ \E r \in F : FirstOcc(r, cur, cur + V) /\ res' = r
                        /\ pc' = "done" /\ cur' = cur
                   ELSE cur' = cur + V /\ res' = res /\ pc' = "loop"
           ELSE pc' = "tail" /\ UNCHANGED <<cur, res, lo1, lo2>>
Tail == /\ pc = "tail"
        /\ IF cur < N
           THEN IF N - cur < NL
                THEN res' = -1 /\ pc' = "done" /\ UNCHANGED <<cur, lo1, lo2>>
                ELSE /\ lo1' = Max + I1 /\ lo2' = Max + I2 /\ cur' = Max
                     /\ IF OccK(cur - Max)
                        THEN \E r \in F : FirstOccK(r, cur - Max) /\ res' = r
                        ELSE res' = -1
                     /\ pc' = "done"
           ELSE res' = -1 /\ pc' = "done" /\ UNCHANGED <<cur, lo1, lo2>>
Next == Loop \/ Tail
Spec == Init /\ [][Next]_vars

TypeOK == pc \in {"loop", "tail", "done"} /\ cur \in Int /\ res \in Int /\ lo1 \in Int /\ lo2 \in Int
LoadsInBounds == 0 <= lo1 /\ lo1 + V <= N /\ 0 <= lo2 /\ lo2 + V <= N
Scanned == pc \in {"loop", "tail"} => (0 <= cur /\ cur <= Max + V /\ ~Occ(0, cur) /\ (pc = "tail" => cur > Max))
Correct == pc = "done" => \/ (res = -1 /\ F = {})
                          \/ (res \in F /\ \A f \in F : res <= f)
Inv == TypeOK /\ LoadsInBounds /\ Scanned /\ Correct

LEMMA Basic == MaxI \in Nat /\ MaxI <= NL - 1 /\ I1 <= MaxI /\ I2 <= MaxI /\ I1 \in Nat /\ I2 \in Nat /\ MinLen \in Nat /\ MinLen >= V /\ MinLen >= MaxI + V /\ MinLen >= NL /\ Max \in Nat
<1>1. MaxI \in Nat /\ MaxI <= NL - 1 /\ I1 <= MaxI /\ I2 <= MaxI /\ I1 \in Nat /\ I2 \in Nat
  BY NLAssump, IAssump DEF MaxI
<1>2. MinLen \in Nat /\ MinLen >= MaxI + V /\ MinLen >= V /\ MinLen >= NL
  BY <1>1, VAssump, NLAssump DEF MinLen
<1>3. Max \in Nat
  BY <1>2, NAssump DEF Max
<1> QED BY <1>1, <1>2, <1>3

\* every occurrence start lies below Max + V (so the chunks examined cover all of them)
LEMMA OccInRange == \A f \in F : f < Max + V
<1> SUFFICES ASSUME NEW f \in F PROVE f < Max + V
  OBVIOUS
<1>1. f \in Int /\ f + NL <= N
  BY FAssump
<1>2. MinLen = NL \/ MinLen = MaxI + V
  BY DEF MinLen
<1>3. MinLen - V + 1 <= NL
  BY <1>2, Basic, VAssump, NLAssump
<1> QED BY <1>1, <1>3, Basic, VAssump, NLAssump, NAssump DEF Max

THEOREM InitInv == Init => Inv
<1> SUFFICES ASSUME Init PROVE Inv
  OBVIOUS
<1>1. TypeOK
  BY DEF Init, TypeOK
<1>2. LoadsInBounds
  BY Basic, VAssump, NAssump DEF Init, LoadsInBounds, Max
<1>3. Scanned
  BY Basic, VAssump, FAssump DEF Init, Scanned, Occ
<1>4. Correct
  BY DEF Init, Correct
<1> QED BY <1>1, <1>2, <1>3, <1>4 DEF Inv

THEOREM NextInv == Inv /\ [Next]_vars => Inv'
<1> SUFFICES ASSUME Inv, [Next]_vars PROVE Inv'
  OBVIOUS
<1> USE VAssump, NLAssump, IAssump, NAssump, FAssump, Basic, OccInRange
<1>1. CASE Loop
  <2>0. pc = "loop" /\ cur \in Int /\ 0 <= cur /\ cur <= Max + V /\ ~Occ(0, cur)
    BY <1>1 DEF Loop, Inv, TypeOK, Scanned
  <2>1. CASE cur <= Max /\ Occ(cur, cur + V)
    <3> PICK r \in F : FirstOcc(r, cur, cur + V) /\ res' = r
      BY <1>1, <2>1 DEF Loop
    <3>1. \A f \in F : r <= f
      BY <2>0 DEF FirstOcc, Occ
    <3>2. LoadsInBounds'
      BY <1>1, <2>1, <2>0 DEF Loop, LoadsInBounds, Max
    <3> QED BY <1>1, <2>1, <3>1, <3>2 DEF Loop, Inv, TypeOK, Scanned, Correct, FirstOcc
  <2>2. CASE cur <= Max /\ ~Occ(cur, cur + V)
    <3>1. ~Occ(0, cur + V)
      BY <2>0, <2>2 DEF Occ
    <3>2. LoadsInBounds'
      BY <1>1, <2>2, <2>0 DEF Loop, LoadsInBounds, Max
    <3> QED BY <1>1, <2>2, <2>0, <3>1, <3>2 DEF Loop, Inv, TypeOK, Scanned, Correct
  <2>3. CASE ~(cur <= Max)
    BY <1>1, <2>3, <2>0 DEF Loop, Inv, TypeOK, LoadsInBounds, Scanned, Correct
  <2> QED BY <2>1, <2>2, <2>3
<1>2. CASE Tail
  <2>1. CASE cur < N /\ N - cur < NL
    \* fewer than NL bytes remain after the scanned prefix: no occurrence can start at or after cur, and none starts before
    <3>1. \A f \in F : f < cur
      BY <2>1 DEF Inv, TypeOK
    <3>2. F = {}
      BY <3>1, <1>2 DEF Inv, Scanned, Occ, Tail
    <3> QED BY <1>2, <2>1, <3>2 DEF Tail, Inv, TypeOK, LoadsInBounds, Scanned, Correct
  <2>2. CASE cur < N /\ ~(N - cur < NL)
    <3>0. pc = "tail" /\ cur > Max /\ cur <= Max + V /\ ~Occ(0, cur) /\ cur \in Int
      BY <1>2 DEF Tail, Inv, Scanned, TypeOK
    <3>1. \A f \in F : (f >= cur) => (Max <= f /\ f < Max + V /\ (f - Max) \in K[cur - Max])
      BY <3>0, KAssump DEF Max
    <3>2. \A f \in F : f >= cur
      BY <3>0 DEF Occ
    <3>3. CASE OccK(cur - Max)
      <4> PICK r \in F : FirstOccK(r, cur - Max) /\ res' = r
        BY <1>2, <2>2, <3>3 DEF Tail
      <4>1. \A f \in F : r <= f
        BY <3>1, <3>2 DEF FirstOccK
      <4>2. LoadsInBounds'
        BY <1>2, <2>2 DEF Tail, LoadsInBounds, Max
      <4> QED BY <1>2, <2>2, <3>3, <4>1, <4>2, <3>0 DEF Tail, Inv, TypeOK, Scanned, Correct, FirstOccK
    <3>4. CASE ~OccK(cur - Max)
      <4>1. F = {}
        BY <3>4, <3>1, <3>2 DEF OccK
      <4>2. LoadsInBounds'
        BY <1>2, <2>2 DEF Tail, LoadsInBounds, Max
      <4> QED BY <1>2, <2>2, <3>4, <4>1, <4>2, <3>0 DEF Tail, Inv, TypeOK, Scanned, Correct
    <3> QED BY <3>3, <3>4
  <2>3. CASE ~(cur < N)
    <3>1. \A f \in F : f < cur
      BY <2>3 DEF Inv, TypeOK
    <3>2. F = {}
      BY <3>1, <1>2 DEF Inv, Scanned, Occ, Tail
    <3> QED BY <1>2, <2>3, <3>2 DEF Tail, Inv, TypeOK, LoadsInBounds, Scanned, Correct
  <2> QED BY <2>1, <2>2, <2>3
<1>3. CASE UNCHANGED vars
  BY <1>3 DEF vars, Inv, TypeOK, LoadsInBounds, Scanned, Correct, Occ
<1> QED BY <1>1, <1>2, <1>3 DEF Next

THEOREM Safety == Spec => []Inv
  BY InitInv, NextInv, PTL DEF Spec
=============================================================================
