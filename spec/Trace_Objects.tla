---------------------------- MODULE Trace_Objects ----------------------------
(***************************************************************************)
(* I->S validator for C16: a record is one recorded history of operations  *)
(* on real substring objects at the real constants:                        *)
(*   [n |-> needle, hs |-> <<haystacks>>, ops |-> << [op, k, ret] >>]      *)
(* ops (the actions of MC_MemmemObjects plus reverse objects):             *)
(*   "find" k / "rfind" k          search haystack k with the (reverse)    *)
(*                                 finder, whatever happened before        *)
(*   "next" / "clone" / "clone_next"   the FindIter over haystack 1 and    *)
(*                                 its clone                               *)
(*   "rnext" / "rclone" / "rclone_next" the FindRevIter over haystack 1    *)
(*   "into_owned" / "drop_buffer"  ownership changes (no observable value) *)
(*   "needle"                      ret = 1 iff needle() = construction n   *)
(* The P-layer object machine: a finder is a pure function of its needle;  *)
(* an iterator is the number of matches it has yielded so far (c), next    *)
(* returns the (c+1)-th element of the greedy sequence or None forever;    *)
(* clone copies c.  The history is folded through this machine.            *)
(***************************************************************************)
EXTENDS Bytes, TLC, Json, IOUtils

Rec == ndJsonDeserialize(IOEnv.TRACE)
VARIABLES l, nviol, nops

Nth(q, c) == IF c < Len(q) THEN q[c + 1] ELSE -1
Bump(q, c) == IF c < Len(q) THEN c + 1 ELSE c

\* st = [c, cc, rc, rcc]: yielded counts of iterator, its clone, reverse iterator, its clone (-1 = no clone yet)
RECURSIVE FirstBad(_, _, _, _, _)
FirstBad(r, fw, rv, k, st) ==
  IF k > Len(r.ops) THEN 0
  ELSE LET o == r.ops[k]
           exp == CASE o.op = "find" -> FindSub(r.hs[o.k], r.n)
                    [] o.op = "rfind" -> RFindSub(r.hs[o.k], r.n)
                    [] o.op = "next" -> Nth(fw, st.c)
                    [] o.op = "clone_next" -> Nth(fw, st.cc)
                    [] o.op = "rnext" -> Nth(rv, st.rc)
                    [] o.op = "rclone_next" -> Nth(rv, st.rcc)
                    [] o.op = "needle" -> 1
                    [] OTHER -> o.ret
           st2 == CASE o.op = "next" -> [st EXCEPT !.c = Bump(fw, st.c)]
                    [] o.op = "clone" -> [st EXCEPT !.cc = st.c]
                    [] o.op = "clone_next" -> [st EXCEPT !.cc = Bump(fw, st.cc)]
                    [] o.op = "rnext" -> [st EXCEPT !.rc = Bump(rv, st.rc)]
                    [] o.op = "rclone" -> [st EXCEPT !.rcc = st.rc]
                    [] o.op = "rclone_next" -> [st EXCEPT !.rcc = Bump(rv, st.rcc)]
                    [] OTHER -> st
       IN IF o.ret = exp THEN FirstBad(r, fw, rv, k + 1, st2) ELSE k

Init == l = 1 /\ nviol = 0 /\ nops = 0
Next == /\ l <= Len(Rec)
        /\ LET r == Rec[l]
               b == FirstBad(r, GreedyFwd(r.hs[1], r.n), GreedyRev(r.hs[1], r.n), 1, [c |-> 0, cc |-> 0, rc |-> 0, rcc |-> 0]) IN
           /\ nviol' = IF b = 0 THEN nviol ELSE nviol + 1
           /\ nops' = nops + Len(r.ops)
           /\ IF b = 0 THEN TRUE ELSE PrintT(<<"VIOLATION", l, r.ops[b].op, "objects", b>>)
        /\ l' = l + 1
AllConsumed == TLCGet("stats").diameter - 1 = Len(Rec)
Summary == (l = Len(Rec) + 1) => PrintT(<<"SUMMARY", Len(Rec), nviol, nops>>)
=============================================================================
