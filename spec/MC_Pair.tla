-------------------------------- MODULE MC_Pair --------------------------------
(* Exhaustive instance of pair selection: all needles 0..MaxN over Alpha x all    *)
(* rankers Alpha -> Ranks (incl. constant and non-injective ones), with the scan  *)
(* cap scaled to PAIRCAP; with_indices for every (a, b) in 0..MaxN+1 squared.     *)
EXTENDS Pair, TLC, Json
CONSTANTS Alpha, MaxN, Ranks, Emit,
          LongLens   \* {}: all needles 0..MaxN over Alpha; otherwise: needles of these lengths that are all 0 except one or two 1s placed around the cap
LongIdx == <<0, 1, 253, 254, 255>>
VARIABLES n, rank, done, sel
Init == /\ IF LongLens = {} THEN n \in Seqs(Alpha, 0, MaxN)
           ELSE \E L \in LongLens : \E p1 \in (PAIRCAP - 3)..(PAIRCAP + 3) : \E p2 \in {0, 1, PAIRCAP - 2, PAIRCAP, PAIRCAP + 1, L} :
                  n = [i \in 1..L |-> IF i = p1 \/ i = p2 THEN 1 ELSE 0]
        /\ rank \in [Alpha -> Ranks] /\ done = FALSE /\ sel = PR_None
Next == ~done /\ done' = TRUE /\ sel' = PR_WithRanker(n, rank) /\ UNCHANGED <<n, rank>>   \* the selection is evaluated once, in a worker
P == sel
SelectionValid == done => PR_Valid(n, P)
\* the first offset is a position of a byte of minimal rank among the scanned prefix
RarestFirst == (done /\ ~P.none) =>
   \A k \in 0..Min2(Len(n), PAIRCAP) - 1 : rank[At(n, P.i1)] <= rank[At(n, k)]
IndicesExact == (done /\ LongLens = {}) => \A a, b \in 0..MaxN + 1 : (~PR_WithIndices(n, a, b).none) <=> PR_IndicesAccepts(n, a, b)
Vector == [m |-> "pair", needle |-> n, rank |-> [k \in 1..Cardinality(Alpha) |-> rank[k - 1]], none |-> P.none, i1 |-> P.i1, i2 |-> P.i2, cap |-> PAIRCAP,
           acc |-> IF LongLens # {}
                   THEN [k \in 1..25 |-> LET a == LongIdx[((k - 1) \div 5) + 1]  b == LongIdx[((k - 1) % 5) + 1] IN <<a, b, PR_IndicesAccepts(n, a, b)>>]
                   ELSE [k \in 1..(MaxN + 2) * (MaxN + 2) |->
                          LET a == (k - 1) \div (MaxN + 2)  b == (k - 1) % (MaxN + 2) IN <<a, b, PR_IndicesAccepts(n, a, b)>>]]
EmitReplay == (Emit /\ done) => PrintT(<<"REPLAY", ToJson(Vector)>>)
=============================================================================
