---------------------------- MODULE MC_ArchMemchr ----------------------------
(* Emits the predicted route (algorithm and vector width) for every haystack   *)
(* length 0..MaxLen and every dispatch outcome; the replayer compares it with  *)
(* the sizes of the vector loads the real top-level functions perform          *)
(* (conformance), and TLC evaluates ArchMemchr's lemmas.                       *)
EXTENDS ArchMemchr, TLC, Json
CONSTANTS MaxLen, Emit
VARIABLES len, avail
Init == len \in 0..MaxLen /\ avail \in {"avx2", "sse2", "fallback"}
Next == FALSE /\ UNCHANGED <<len, avail>>
Vector == [m |-> "route", len |-> len, avail |-> avail, alg |-> TopRoute(avail, len).alg, vb |-> TopRoute(avail, len).vb]
EmitReplay == Emit => PrintT(<<"REPLAY", ToJson(Vector)>>)
=============================================================================
