--------------------------- MODULE GenericMemchr ---------------------------
(***************************************************************************)
(* L-layer model of src/arch/generic/memchr.rs: One/Two/Three::find_raw,   *)
(* rfind_raw and One::count_raw, generic in the vector width VB.           *)
(*                                                                         *)
(* One loop iteration of the code = one Step.  The input record is         *)
(*   in = [op   : "find" | "rfind" | "count",                              *)
(*         nn   : number of needles (1..3),                                *)
(*         hay  : sequence over 0..nn, symbol s > 0 = "equals needle s",   *)
(*         base : address of `start` (only base % VB matters)]             *)
(* Addresses are absolute (start = base); loads are logged as             *)
(* <<kind, offset-from-start>> with kind "a" (load_aligned) or "u"         *)
(* (load_unaligned).  Lane masks are modelled as lane sets; module VecOps  *)
(* ties the bit-level mask formulas of vector.rs to this lane-set meaning. *)
(* Precondition of the code (debug-asserted there): Len(hay) >= VB.        *)
(***************************************************************************)
EXTENDS Bytes

CONSTANT VB                     \* vector width in bytes (power of two)

Unroll(in) == IF in.nn = 1 THEN 4 ELSE 2          \* LOOP_SIZE / V::BYTES
LoopSz(in) == Unroll(in) * VB

Needles(in) == 1..in.nn
IsM(in, a) == in.hay[a - in.base + 1] \in Needles(in)
\* lanes of the vector at address a that match some needle (or of the per-needle masks)
Lanes(in, a) == {k \in 0..VB - 1 : IsM(in, a + k)}

Init0(in) ==
  [pc |-> "head", cur |-> 0, res |-> -2, cnt |-> 0, loads |-> <<>>,
   arms |-> {}, steps |-> 0, bad |-> FALSE]

Ld(st, in, k, a) == Append(st.loads, <<k, a - in.base>>)
LdN(st, in, a, n) == st.loads \o [i \in 1..n |-> <<"a", a + (i - 1) * VB - in.base>>]
Arm(st, x) == st.arms \cup {x}

\* first group (ascending) of an unrolled iteration at cur that has a match, or -1
RECURSIVE FirstGroup(_, _, _, _)
FirstGroup(in, cur, g, n) ==
  IF g >= n THEN -1 ELSE IF Lanes(in, cur + g * VB) # {} THEN g ELSE FirstGroup(in, cur, g + 1, n)
RECURSIVE LastGroup(_, _, _)
LastGroup(in, cur, g) ==
  IF g < 0 THEN -1 ELSE IF Lanes(in, cur + g * VB) # {} THEN g ELSE LastGroup(in, cur, g - 1)
RECURSIVE SumGroups(_, _, _, _)
SumGroups(in, cur, g, n) ==
  IF g >= n THEN 0 ELSE Cardinality(Lanes(in, cur + g * VB)) + SumGroups(in, cur, g + 1, n)

---------------------------------------------------------------------------
StepFind(in, st) ==
  LET start == in.base
      end == in.base + Len(in.hay)
      U == Unroll(in)
      LOOP == LoopSz(in)
      done(s, r, arm) == [s EXCEPT !.pc = "done", !.res = r, !.arms = Arm(s, arm), !.steps = @ + 1]
  IN
  CASE st.pc = "head" ->
         \* search_chunk(start) via load_unaligned, then cur := first aligned address > start
         LET L == Lanes(in, start)
             s1 == [st EXCEPT !.loads = Ld(st, in, "u", start)] IN
         IF L # {} THEN done(s1, SetMin(L), "h_hit")
         ELSE [s1 EXCEPT !.cur = start + (VB - (start % VB)),
                         !.pc = IF Len(in.hay) >= LOOP THEN "loop" ELSE "vec",
                         !.arms = Arm(st, "h_miss"), !.steps = @ + 1]
    [] st.pc = "loop" ->
         \* while cur <= end - LOOP_SIZE: U aligned loads; groups tested a, b, c, d
         IF st.cur + LOOP <= end
         THEN LET g == FirstGroup(in, st.cur, 0, U)
                  s1 == [st EXCEPT !.loads = LdN(st, in, st.cur, U),
                                   !.bad = @ \/ (st.cur % VB # 0)] IN
              IF g >= 0 THEN done(s1, st.cur + g * VB + SetMin(Lanes(in, st.cur + g * VB)) - start, "l_hit")
              ELSE [s1 EXCEPT !.cur = st.cur + LOOP, !.arms = Arm(st, "l_miss"), !.steps = @ + 1]
         ELSE [st EXCEPT !.pc = "vec", !.arms = Arm(st, "l_exit")]
    [] st.pc = "vec" ->
         \* while cur <= end - V::BYTES: search_chunk(cur) (unaligned API, aligned address)
         IF st.cur + VB <= end
         THEN LET L == Lanes(in, st.cur)
                  s1 == [st EXCEPT !.loads = Ld(st, in, "u", st.cur)] IN
              IF L # {} THEN done(s1, st.cur + SetMin(L) - start, "v_hit")
              ELSE [s1 EXCEPT !.cur = st.cur + VB, !.arms = Arm(st, "v_miss"), !.steps = @ + 1]
         ELSE [st EXCEPT !.pc = "tail", !.arms = Arm(st, "v_exit")]
    [] st.pc = "tail" ->
         \* if cur < end: cur := end - V::BYTES, one overlapping chunk
         IF st.cur < end
         THEN LET c == end - VB
                  L == Lanes(in, c)
                  s1 == [st EXCEPT !.cur = c, !.loads = Ld(st, in, "u", c),
                                   !.bad = @ \/ ~(end - st.cur < VB)] IN
              IF L # {} THEN done(s1, c + SetMin(L) - start, "t_hit")
              ELSE done(s1, -1, "t_miss")
         ELSE done(st, -1, "t_none")

StepRfind(in, st) ==
  LET start == in.base
      end == in.base + Len(in.hay)
      U == Unroll(in)
      LOOP == LoopSz(in)
      done(s, r, arm) == [s EXCEPT !.pc = "done", !.res = r, !.arms = Arm(s, arm), !.steps = @ + 1]
  IN
  CASE st.pc = "head" ->
         \* search_chunk(end - V::BYTES); cur := end - (end & ALIGN)
         LET L == Lanes(in, end - VB)
             s1 == [st EXCEPT !.loads = Ld(st, in, "u", end - VB)] IN
         IF L # {} THEN done(s1, end - VB + SetMax(L) - start, "h_hit")
         ELSE [s1 EXCEPT !.cur = end - (end % VB),
                         !.pc = IF Len(in.hay) >= LOOP THEN "loop" ELSE "vec",
                         !.arms = Arm(st, "h_miss"), !.steps = @ + 1]
    [] st.pc = "loop" ->
         \* while cur >= start + LOOP_SIZE: cur -= LOOP_SIZE; groups tested d, c, b, a
         IF st.cur >= start + LOOP
         THEN LET c == st.cur - LOOP
                  g == LastGroup(in, c, U - 1)
                  s1 == [st EXCEPT !.cur = c, !.loads = LdN(st, in, c, U),
                                   !.bad = @ \/ (st.cur % VB # 0)] IN
              IF g >= 0 THEN done(s1, c + g * VB + SetMax(Lanes(in, c + g * VB)) - start, "l_hit")
              ELSE [s1 EXCEPT !.arms = Arm(st, "l_miss"), !.steps = @ + 1]
         ELSE [st EXCEPT !.pc = "vec", !.arms = Arm(st, "l_exit")]
    [] st.pc = "vec" ->
         IF st.cur >= start + VB
         THEN LET c == st.cur - VB
                  L == Lanes(in, c)
                  s1 == [st EXCEPT !.cur = c, !.loads = Ld(st, in, "u", c)] IN
              IF L # {} THEN done(s1, c + SetMax(L) - start, "v_hit")
              ELSE [s1 EXCEPT !.arms = Arm(st, "v_miss"), !.steps = @ + 1]
         ELSE [st EXCEPT !.pc = "tail", !.arms = Arm(st, "v_exit")]
    [] st.pc = "tail" ->
         IF st.cur > start
         THEN LET L == Lanes(in, start)
                  s1 == [st EXCEPT !.loads = Ld(st, in, "u", start),
                                   !.bad = @ \/ ~(st.cur - start < VB)] IN
              IF L # {} THEN done(s1, SetMax(L), "t_hit")
              ELSE done(s1, -1, "t_miss")
         ELSE done(st, -1, "t_none")

\* One::count_raw: scalar head up to the first aligned address, unrolled
\* popcount loop, single-vector popcount loop, scalar tail.
StepCount(in, st) ==
  LET start == in.base
      end == in.base + Len(in.hay)
      U == Unroll(in)
      LOOP == LoopSz(in)
      bytes(lo, hi) == Cardinality({a \in lo..hi - 1 : IsM(in, a)})
  IN
  CASE st.pc = "head" ->
         LET c == start + (VB - (start % VB)) IN
         [st EXCEPT !.cur = c, !.cnt = bytes(start, c),
                    !.pc = IF Len(in.hay) >= LOOP THEN "loop" ELSE "vec",
                    !.arms = Arm(st, "c_head"), !.steps = @ + (c - start),
                    !.bad = @ \/ ~(c > start /\ end - VB >= start)]
    [] st.pc = "loop" ->
         IF st.cur + LOOP <= end
         THEN [st EXCEPT !.cur = st.cur + LOOP, !.cnt = @ + SumGroups(in, st.cur, 0, U),
                         !.loads = LdN(st, in, st.cur, U), !.arms = Arm(st, "c_loop"),
                         !.steps = @ + 1, !.bad = @ \/ (st.cur % VB # 0)]
         ELSE [st EXCEPT !.pc = "vec", !.arms = Arm(st, "l_exit")]
    [] st.pc = "vec" ->
         IF st.cur + VB <= end
         THEN [st EXCEPT !.cur = st.cur + VB, !.cnt = @ + Cardinality(Lanes(in, st.cur)),
                         !.loads = Ld(st, in, "u", st.cur), !.arms = Arm(st, "c_vec"), !.steps = @ + 1]
         ELSE [st EXCEPT !.pc = "tail", !.arms = Arm(st, "v_exit")]
    [] st.pc = "tail" ->
         [st EXCEPT !.pc = "done", !.cnt = @ + bytes(st.cur, end), !.res = st.cnt + bytes(st.cur, end),
                    !.arms = Arm(st, IF st.cur < end THEN "c_tail" ELSE "c_notail"),
                    !.steps = @ + (end - st.cur), !.bad = @ \/ (st.cur > end)]

Step(in, st) ==
  CASE in.op = "find" -> StepFind(in, st)
    [] in.op = "rfind" -> StepRfind(in, st)
    [] in.op = "count" -> StepCount(in, st)

RECURSIVE Run(_, _)
Run(in, st) == IF st.pc = "done" THEN st ELSE Run(in, Step(in, st))

---------------------------------------------------------------------------
\* P-layer meaning of the result
Oracle(in) ==
  CASE in.op = "find" -> FirstMatch(in.hay, Needles(in))
    [] in.op = "rfind" -> LastMatch(in.hay, Needles(in))
    [] in.op = "count" -> CountMatch(in.hay, Needles(in))

\* every load lies inside [start, end) and aligned loads are aligned
LoadsOK(in, st) ==
  \A i \in 1..Len(st.loads) :
     /\ InBounds(st.loads[i][2], VB, Len(in.hay))
     /\ (st.loads[i][1] = "a" => AlignedAt(in.base, st.loads[i][2], VB))

\* before returning None, every byte of the haystack was inspected by some load
Covered(in, st) ==
  (st.pc = "done" /\ st.res = -1 /\ in.op # "count") =>
     \A b \in 0..Len(in.hay) - 1 : \E i \in 1..Len(st.loads) :
        st.loads[i][2] <= b /\ b < st.loads[i][2] + VB

\* the linear cost bound: one step per VB bytes plus constants (count: + scalar ends)
StepsLinear(in, st) == st.steps * VB <= Len(in.hay) + 4 * VB + (IF in.op = "count" THEN 2 * VB * VB ELSE 0)
=============================================================================
