--------------------------- MODULE MC_SubBlocks1 ---------------------------
(* Exhaustive instance of Rabin-Karp (forward and reverse) and Shift-Or:    *)
(* all needles 0..MaxN x all haystacks 0..MaxH over Alpha.                  *)
EXTENDS ShiftOr, TLC, Json
CONSTANTS Alpha, MaxN, MaxH, Emit
VARIABLES n, h, done
Init == n \in Seqs(Alpha, 0, MaxN) /\ h \in Seqs(Alpha, 0, MaxH) /\ done = FALSE
Next == ~done /\ done' = TRUE /\ UNCHANGED <<n, h>>
RKF == RK_Find(h, n)
RKR == RK_RFind(h, n)
SOF == SO_Find(h, n)
RabinKarpFwdOK == done => RKF.res = FindSub(h, n)
RabinKarpRevOK == done => RKR.res = RFindSub(h, n)
ShiftOrOK == done => (SO_Accepts(n) => SOF.res = FindSub(h, n))
\* the window hash is rolled at most once per haystack byte; confirmations are bounded by hashes
RKCost == done => RKF.hashes <= Len(h) + 1 /\ RKR.hashes <= Len(h) + 1
Vector == [m |-> "blocks1", n |-> n, h |-> h, find |-> FindSub(h, n), rfind |-> RFindSub(h, n),
           so_ok |-> SO_Accepts(n), rkf_hashes |-> RKF.hashes, rkr_hashes |-> RKR.hashes]
EmitReplay == (Emit /\ done) => PrintT(<<"REPLAY", ToJson(Vector)>>)
=============================================================================
