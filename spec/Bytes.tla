------------------------------- MODULE Bytes -------------------------------
(***************************************************************************)
(* P-layer: the user-visible meaning of every memchr routine, as plain     *)
(* operators over sequences of naturals.  These are the ONLY oracles used  *)
(* by any check: every verdict in the framework is a comparison with one   *)
(* of these operators.  Sequences are 1-based in TLA+; all positions that  *)
(* cross the TLA+/Rust boundary are 0-based offsets, "none" is -1.         *)
(***************************************************************************)
EXTENDS Integers, Sequences, FiniteSets

Max2(a, b) == IF a > b THEN a ELSE b
Min2(a, b) == IF a < b THEN a ELSE b

\* 0-based access and slicing helpers
At(s, i) == s[i + 1]
Drop(s, k) == SubSeq(s, k + 1, Len(s))
Take(s, k) == SubSeq(s, 1, k)
Slice(s, lo, hi) == SubSeq(s, lo + 1, hi)          \* s[lo..hi) 0-based half-open

SetMin(S) == CHOOSE x \in S : \A y \in S : x <= y
SetMax(S) == CHOOSE x \in S : \A y \in S : x >= y

-----------------------------------------------------------------------------
(* Byte search: h a sequence, S a set of needle values.                    *)

MatchSet(h, S) == {i \in 0..Len(h) - 1 : At(h, i) \in S}

RECURSIVE FirstFrom(_, _, _)
FirstFrom(h, S, i) ==
  IF i >= Len(h) THEN -1 ELSE IF At(h, i) \in S THEN i ELSE FirstFrom(h, S, i + 1)
FirstMatch(h, S) == FirstFrom(h, S, 0)

RECURSIVE LastFrom(_, _, _)
LastFrom(h, S, i) ==
  IF i < 0 THEN -1 ELSE IF At(h, i) \in S THEN i ELSE LastFrom(h, S, i - 1)
LastMatch(h, S) == LastFrom(h, S, Len(h) - 1)

CountMatch(h, S) == Cardinality(MatchSet(h, S))

\* window forms used by partially consumed iterators: matches in h[lo..hi)
FirstIn(h, S, lo, hi) ==
  LET r == FirstMatch(Slice(h, lo, hi), S) IN IF r < 0 THEN -1 ELSE lo + r
LastIn(h, S, lo, hi) ==
  LET r == LastMatch(Slice(h, lo, hi), S) IN IF r < 0 THEN -1 ELSE lo + r
CountIn(h, S, lo, hi) == CountMatch(Slice(h, lo, hi), S)

-----------------------------------------------------------------------------
(* Substring search.                                                       *)

Occurs(h, n, i) ==
  /\ i >= 0
  /\ i + Len(n) <= Len(h)
  /\ \A j \in 0..Len(n) - 1 : At(h, i + j) = At(n, j)

\* the ascending sequence of occurrence positions; leftmost / rightmost occurrence or -1
OccSeq(h, n) ==
  LET Test(i) == Occurs(h, n, i) IN
  SelectSeq([k \in 1..(Len(h) - Len(n) + 1) |-> k - 1], Test)
FindSub(h, n) == LET q == OccSeq(h, n) IN IF Len(q) = 0 THEN -1 ELSE q[1]
RFindSub(h, n) == LET q == OccSeq(h, n) IN IF Len(q) = 0 THEN -1 ELSE q[Len(q)]

\* The same two oracles read as scans (MC_SubOracle checks ScanLemma: they coincide). The sequence form above is the
\* definition because TLC evaluates it in linear time on the multi-kilobyte haystacks of recorded traces, whereas the
\* recursion below costs quadratic time there.
RECURSIVE FindFrom(_, _, _)
FindFrom(h, n, i) ==
  IF i + Len(n) > Len(h) THEN -1
  ELSE IF Occurs(h, n, i) THEN i ELSE FindFrom(h, n, i + 1)
RECURSIVE RFindFrom(_, _, _)
RFindFrom(h, n, i) ==
  IF i < 0 THEN -1 ELSE IF Occurs(h, n, i) THEN i ELSE RFindFrom(h, n, i - 1)

\* find_iter: repeatedly leftmost occurrence, resume right after its end (after it + 1 for the empty needle):
\* one ascending walk over the occurrence sequence, taking every occurrence that starts at or after `pos`.
RECURSIVE GreedyWalk(_, _, _, _)
GreedyWalk(q, k, pos, step) ==
  IF k > Len(q) THEN <<>>
  ELSE IF q[k] >= pos THEN <<q[k]>> \o GreedyWalk(q, k + 1, q[k] + step, step)
  ELSE GreedyWalk(q, k + 1, pos, step)
GreedyFwd(h, n) == GreedyWalk(OccSeq(h, n), 1, 0, Max2(Len(n), 1))

\* rfind_iter: repeatedly rightmost occurrence inside h[..lim], continue with lim = match start (one less for a match
\* at lim itself, i.e. the empty needle): one descending walk over the occurrence sequence.
RECURSIVE GreedyWalkRev(_, _, _, _)
GreedyWalkRev(q, k, lim, nl) ==
  IF k < 1 \/ lim < 0 THEN <<>>
  ELSE IF q[k] + nl <= lim THEN <<q[k]>> \o GreedyWalkRev(q, k - 1, IF q[k] = lim THEN lim - 1 ELSE q[k], nl)
  ELSE GreedyWalkRev(q, k - 1, lim, nl)
GreedyRev(h, n) == LET q == OccSeq(h, n) IN GreedyWalkRev(q, Len(q), Len(h), Len(n))

\* the same two sequences read as repeated searches on the remaining haystack (ScanLemma of MC_SubOracle)
RECURSIVE GreedyFwdFrom(_, _, _)
GreedyFwdFrom(h, n, pos) ==
  IF pos > Len(h) THEN <<>>
  ELSE LET r == FindFrom(Drop(h, pos), n, 0) IN
       IF r < 0 THEN <<>>
       ELSE <<pos + r>> \o GreedyFwdFrom(h, n, pos + r + Max2(Len(n), 1))
RECURSIVE GreedyRevFrom(_, _, _)
GreedyRevFrom(h, n, pos) ==
  IF pos < 0 THEN <<>>
  ELSE LET r == RFindFrom(Take(h, pos), n, pos - Len(n)) IN
       IF r < 0 THEN <<>>
       ELSE <<r>> \o GreedyRevFrom(h, n, IF r = pos THEN pos - 1 ELSE r)

IsEqualSeq(x, y) == x = y
IsPrefixSeq(h, n) == Len(n) <= Len(h) /\ Take(h, Len(n)) = n
IsSuffixSeq(h, n) == Len(n) <= Len(h) /\ Drop(h, Len(h) - Len(n)) = n

Reverse(s) == [i \in 1..Len(s) |-> s[Len(s) + 1 - i]]

-----------------------------------------------------------------------------
(* Memory-access oracle: a load of `size` bytes at offset `off` relative   *)
(* to a region of `len` bytes.                                             *)
InBounds(off, size, len) == off >= 0 /\ off + size <= len
AlignedAt(base, off, size) == (base + off) % size = 0

-----------------------------------------------------------------------------
(* Finite domains used by the MC modules.                                  *)
Seqs(S, lo, hi) == UNION {[1..k -> S] : k \in lo..hi}

=============================================================================
