--------------------- MODULE PackedPairPrefilterUnbounded ---------------------
(***************************************************************************)
(* Unbounded supplement to PackedPair (C11/C05), proved with TLAPS: the    *)
(* generic packed-pair find_prefilter for ARBITRARY vector width V, needle *)
(* length NL >= 2, pair offsets I1 # I2 below NL and haystack length       *)
(* N >= min_haystack_len = max(NL, max(I1,I2) + V).                        *)
(*   P = candidate positions (both selected needle bytes present at their  *)
(*       offsets; so c + max(I1,I2) < N)                                   *)
(*   F = start positions of real occurrences (F \subseteq P, f + NL <= N)  *)
(*   loop : while cur <= N - minLen: chunk = candidates in [cur, cur + V); *)
(*          first one is returned; cur += V                                *)
(*   tail : if cur < N: chunk at max = N - minLen (unmasked)               *)
(* Theorems: both vector loads of every chunk lie inside the haystack;     *)
(* the result is a candidate not past any occurrence; None only if there   *)
(* is no occurrence ("a prefilter never skips a real match").              *)
(***************************************************************************)
EXTENDS Integers, TLAPS

CONSTANTS V, NL, I1, I2, N, P, F
MaxI == IF I1 > I2 THEN I1 ELSE I2
MinLen == IF NL > MaxI + V THEN NL ELSE MaxI + V
Max == N - MinLen
ASSUME VAssump == V \in Nat /\ V >= 1
ASSUME NLAssump == NL \in Nat /\ NL >= 2
ASSUME IAssump == I1 \in 0..(NL - 1) /\ I2 \in 0..(NL - 1) /\ I1 # I2
ASSUME NAssump == N \in Nat /\ N >= MinLen
ASSUME PAssump == P \subseteq Int /\ \A c \in P : 0 <= c /\ c + MaxI < N
ASSUME FAssump == F \subseteq P /\ \A f \in F : f + NL <= N

VARIABLES pc, cur, res, lo1, lo2      \* lo1 / lo2 = start offsets of the two vector loads of the most recent chunk

vars == <<pc, cur, res, lo1, lo2>>

Cand(a, b) == \E c \in P : a <= c /\ c < b
FirstCand(r, a, b) == r \in P /\ a <= r /\ r < b /\ \A q \in P : (a <= q /\ q < b) => r <= q

Init == pc = "loop" /\ cur = 0 /\ res = -2 /\ lo1 = 0 /\ lo2 = 0

Loop == /\ pc = "loop"
        /\ IF cur <= Max
           THEN /\ lo1' = cur + I1 /\ lo2' = cur + I2
                /\ IF Cand(cur, cur + V)
                   THEN /\ \E r \in P : FirstCand(r, cur, cur + V) /\ res' = r
                        /\ pc' = "done" /\ cur' = cur
                   ELSE cur' = cur + V /\ res' = res /\ pc' = "loop"
           ELSE pc' = "tail" /\ UNCHANGED <<cur, res, lo1, lo2>>
Tail == /\ pc = "tail"
        /\ IF cur < N
           THEN /\ lo1' = Max + I1 /\ lo2' = Max + I2 /\ cur' = Max
                /\ IF Cand(Max, Max + V)
                   THEN \E r \in P : FirstCand(r, Max, Max + V) /\ res' = r
                   ELSE res' = -1
                /\ pc' = "done"
           ELSE res' = -1 /\ pc' = "done" /\ UNCHANGED <<cur, lo1, lo2>>
Next == Loop \/ Tail
Spec == Init /\ [][Next]_vars

TypeOK == pc \in {"loop", "tail", "done"} /\ cur \in Int /\ res \in Int /\ lo1 \in Int /\ lo2 \in Int
LoadsInBounds == 0 <= lo1 /\ lo1 + V <= N /\ 0 <= lo2 /\ lo2 + V <= N
Scanned == pc \in {"loop", "tail"} => (0 <= cur /\ cur <= Max + V /\ ~Cand(0, cur) /\ (pc = "tail" => cur > Max))
NeverSkips == pc = "done" => \/ (res = -1 /\ F = {})
                             \/ (res \in P /\ \A f \in F : res <= f)
Inv == TypeOK /\ LoadsInBounds /\ Scanned /\ NeverSkips

\* every occurrence start lies inside the scanned candidate range [0, Max + V)
LEMMA OccInRange == \A f \in F : f < Max + V
  BY VAssump, NLAssump, IAssump, NAssump, PAssump, FAssump DEF MaxI, MinLen, Max

LEMMA Basic == MaxI \in Nat /\ MinLen \in Nat /\ MinLen >= V /\ MinLen >= MaxI + V /\ Max \in Nat
<1>1. MaxI \in Nat
  BY NLAssump, IAssump DEF MaxI
<1>2. MinLen \in Nat /\ MinLen >= MaxI + V /\ MinLen >= V
  BY <1>1, VAssump, NLAssump DEF MinLen
<1>3. Max \in Nat
  BY <1>2, NAssump DEF Max
<1> QED BY <1>1, <1>2, <1>3

THEOREM InitInv == Init => Inv
<1> SUFFICES ASSUME Init PROVE Inv
  OBVIOUS
<1>1. TypeOK
  BY DEF Init, TypeOK
<1>2. LoadsInBounds
  BY Basic, VAssump, NAssump DEF Init, LoadsInBounds, Max
<1>3. Scanned
  BY Basic, VAssump, PAssump DEF Init, Scanned, Cand
<1>4. NeverSkips
  BY DEF Init, NeverSkips
<1> QED BY <1>1, <1>2, <1>3, <1>4 DEF Inv

THEOREM NextInv == Inv /\ [Next]_vars => Inv'
<1> SUFFICES ASSUME Inv, [Next]_vars PROVE Inv'
  OBVIOUS
<1> USE VAssump, NLAssump, IAssump, NAssump, PAssump, FAssump, OccInRange
<1>1. CASE Loop
  BY <1>1 DEF Loop, Inv, TypeOK, LoadsInBounds, Scanned, NeverSkips, Cand, FirstCand, MaxI, MinLen, Max
<1>2. CASE Tail
  BY <1>2 DEF Tail, Inv, TypeOK, LoadsInBounds, Scanned, NeverSkips, Cand, FirstCand, MaxI, MinLen, Max
<1>3. CASE UNCHANGED vars
  BY <1>3 DEF vars, Inv, TypeOK, LoadsInBounds, Scanned, NeverSkips, Cand
<1> QED BY <1>1, <1>2, <1>3 DEF Next

THEOREM Safety == Spec => []Inv
  BY InitInv, NextInv, PTL DEF Spec
=============================================================================
