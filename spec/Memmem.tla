------------------------------- MODULE Memmem -------------------------------
(***************************************************************************)
(* F+L model of the substring meta searcher (src/memmem/searcher.rs) and   *)
(* the public objects of src/memmem/mod.rs.                                *)
(*                                                                         *)
(* Routing constants (values in the code): RKFAST = 16 (rabinkarp::is_fast)*)
(* ONESHOT = 64 (memmem::find / rfind), MAXP = 32 (do_packed_search),      *)
(* VBS = 16 (SSE2/NEON/simd128 vector; the AVX2 facade holds VBS and 2*VBS *)
(* instances), MAXRANK = 250 (fallback prefilter cut-off).                 *)
(*                                                                         *)
(* cfg = [avail     : "avx2" | "vec" | "none"   what is_available reports  *)
(*                    ("vec" = one 128-bit kind: SSE2-only, NEON, simd128; *)
(*                    "none" = forced fallback or a target without SIMD),  *)
(*        prefilter : "auto" | "none",                                     *)
(*        rank      : function byte -> rank]                               *)
(***************************************************************************)
EXTENDS TwoWay

CONSTANTS RKFAST, ONESHOT, MAXP, VBS, MAXRANK

MM_DoPacked(n) == 2 <= Len(n) /\ Len(n) <= MAXP
MM_Widths(avail) == IF avail = "avx2" THEN <<VBS, 2 * VBS>> ELSE <<VBS>>

\* Searcher::new  ->  strategy record
MM_Strategy(n, cfg) ==
  IF Len(n) = 0 THEN [kind |-> "empty", pre |-> TW_NoPre]
  ELSE IF Len(n) = 1 THEN [kind |-> "onebyte", pre |-> TW_NoPre]
  ELSE LET p == PR_WithRanker(n, cfg.rank)
           vpre == [kind |-> "vector", i1 |-> p.i1, i2 |-> p.i2, vbs |-> MM_Widths(cfg.avail)]
           fpre == [kind |-> "fallback", i1 |-> p.i1, i2 |-> p.i2, vbs |-> <<1>>]
       IN IF cfg.avail \in {"avx2", "vec"}
          THEN IF MM_DoPacked(n) THEN [kind |-> "packed", pre |-> vpre]
               ELSE IF cfg.prefilter = "none" THEN [kind |-> "twoway", pre |-> TW_NoPre]
               ELSE [kind |-> "twoway", pre |-> vpre]
          ELSE IF cfg.prefilter = "none" THEN [kind |-> "twoway", pre |-> TW_NoPre]
               ELSE IF cfg.rank[At(n, p.i1)] > MAXRANK THEN [kind |-> "twoway", pre |-> TW_NoPre]
               ELSE [kind |-> "twoway", pre |-> fpre]

\* a forward finder: needle + strategy + Two-Way preprocessing (only used by the twoway kinds)
MM_Finder(n, cfg) == [needle |-> n, strat |-> MM_Strategy(n, cfg), prep |-> TW_PrepFwd(n)]

\* Searcher::find(prestate, haystack, needle) -> [res, ps, route, cmps, pre, chunks, hashes]
MM_R(res, ps, route, cmps, pre, chunks, hashes, bad) ==
  [res |-> res, ps |-> ps, route |-> route, cmps |-> cmps, pre |-> pre, chunks |-> chunks, hashes |-> hashes, bad |-> bad]
MM_Find(f, h, ps) ==
  LET n == f.needle  s == f.strat IN
  IF Len(h) < Len(n) THEN MM_R(-1, ps, "short", 0, 0, 0, 0, FALSE)
  ELSE CASE s.kind = "empty" -> MM_R(0, ps, "empty", 0, 0, 0, 0, FALSE)
         [] s.kind = "onebyte" -> MM_R(FirstMatch(h, {At(n, 0)}), ps, "onebyte", 0, 0, Len(h), 0, FALSE)
         [] s.kind = "packed" ->
              IF Len(h) < PP_MinLen(s.pre.vbs[1], n, s.pre.i1, s.pre.i2)
              THEN LET r == RK_Find(h, n) IN MM_R(r.res, ps, "packed_rk", r.cmps, 0, 0, r.hashes, FALSE)
              ELSE LET r == PP_Find([hay |-> h, needle |-> n, i1 |-> s.pre.i1, i2 |-> s.pre.i2, vb |-> PF_Width(s.pre, n, Len(h))]) IN
                   MM_R(r.res, ps, "packed", r.cmps, 0, r.chunks, 0, r.panic \/ r.bad)
         [] s.kind = "twoway" ->
              IF RK_IsFast(h, RKFAST)
              THEN LET r == RK_Find(h, n) IN MM_R(r.res, ps, "twoway_rk", r.cmps, 0, 0, r.hashes, FALSE)
              ELSE LET r == TW_Find(n, f.prep, s.pre, h, ps) IN
                   MM_R(r.res, r.ps, IF s.pre.kind = "none" THEN "twoway" ELSE "twoway_pre", r.cmps, r.pre, 0, 0, r.bad)

\* Finder::find: a fresh PrefilterState per call
MM_FinderFind(f, h) == MM_Find(f, h, PS_New)
\* memmem::find
MM_TopFind(h, n, cfg) ==
  IF Len(h) < ONESHOT THEN LET r == RK_Find(h, n) IN MM_R(r.res, PS_New, "oneshot_rk", r.cmps, 0, 0, r.hashes, FALSE)
  ELSE MM_FinderFind(MM_Finder(n, cfg), h)

\* ---- reverse ----
MM_FinderRev(n) == [needle |-> n, kind |-> IF Len(n) = 0 THEN "empty" ELSE IF Len(n) = 1 THEN "onebyte" ELSE "twoway", prep |-> TW_PrepRev(n)]
MM_RFind(f, h) ==
  LET n == f.needle IN
  IF Len(h) < Len(n) THEN MM_R(-1, PS_New, "short", 0, 0, 0, 0, FALSE)
  ELSE CASE f.kind = "empty" -> MM_R(Len(h), PS_New, "empty", 0, 0, 0, 0, FALSE)
         [] f.kind = "onebyte" -> MM_R(LastMatch(h, {At(n, 0)}), PS_New, "onebyte", 0, 0, Len(h), 0, FALSE)
         [] f.kind = "twoway" ->
              IF RK_IsFast(h, RKFAST)
              THEN LET r == RK_RFind(h, n) IN MM_R(r.res, PS_New, "twoway_rk", r.cmps, 0, 0, r.hashes, FALSE)
              ELSE LET r == TW_RFind(n, f.prep, h) IN MM_R(r.res, PS_New, "twoway", r.cmps, 0, 0, 0, r.bad)
MM_TopRFind(h, n) ==
  IF Len(h) < ONESHOT THEN LET r == RK_RFind(h, n) IN MM_R(r.res, PS_New, "oneshot_rk", r.cmps, 0, 0, r.hashes, FALSE)
  ELSE MM_RFind(MM_FinderRev(n), h)

\* ---- FindIter: it = [pos, ps] ----
FI_New == [pos |-> 0, ps |-> PS_New]
\* next() -> [ret, it, r]   (ret = -1 for None)
FI_Next(f, h, it) ==
  IF it.pos > Len(h) THEN [ret |-> -1, it |-> it, r |-> MM_R(-1, it.ps, "past_end", 0, 0, 0, 0, FALSE)]
  ELSE LET r == MM_Find(f, Drop(h, it.pos), it.ps) IN
       IF r.res < 0 THEN [ret |-> -1, it |-> [it EXCEPT !.ps = r.ps], r |-> r]
       ELSE [ret |-> it.pos + r.res, it |-> [pos |-> it.pos + r.res + Max2(Len(f.needle), 1), ps |-> r.ps], r |-> r]
FI_Hint(f, h, it) ==
  IF it.pos > Len(h) THEN <<0, 0>>
  ELSE IF Len(f.needle) = 0 THEN <<Len(h) - it.pos + 1, Len(h) - it.pos + 1>>
  ELSE <<0, (Len(h) - it.pos) \div Len(f.needle)>>
\* drain: the whole traversal, with the accumulated cost; k bounds the recursion defensively
RECURSIVE FI_Drain(_, _, _, _, _, _)
FI_Drain(f, h, it, acc, cost, k) ==
  IF k = 0 THEN [seq |-> acc, it |-> it, cost |-> cost, ok |-> FALSE]
  ELSE LET x == FI_Next(f, h, it)
           c2 == [cmps |-> cost.cmps + x.r.cmps, pre |-> cost.pre + x.r.pre, chunks |-> cost.chunks + x.r.chunks,
                  hashes |-> cost.hashes + x.r.hashes, bad |-> cost.bad \/ x.r.bad] IN
       IF x.ret < 0 THEN [seq |-> acc, it |-> x.it, cost |-> c2, ok |-> TRUE]
       ELSE FI_Drain(f, h, x.it, Append(acc, x.ret), c2, k - 1)
FI_All(f, h) == FI_Drain(f, h, FI_New, <<>>, [cmps |-> 0, pre |-> 0, chunks |-> 0, hashes |-> 0, bad |-> FALSE], Len(h) + 3)

\* ---- FindRevIter: pos = -1 encodes None ----
FR_New(h) == Len(h)
FR_Next(f, h, pos) ==
  IF pos < 0 THEN [ret |-> -1, pos |-> pos, r |-> MM_R(-1, PS_New, "done", 0, 0, 0, 0, FALSE)]
  ELSE LET r == MM_RFind(f, Take(h, pos)) IN
       IF r.res < 0 THEN [ret |-> -1, pos |-> pos, r |-> r]
       ELSE [ret |-> r.res, pos |-> IF pos = r.res THEN pos - 1 ELSE r.res, r |-> r]
RECURSIVE FR_Drain(_, _, _, _, _, _)
FR_Drain(f, h, pos, acc, cost, k) ==
  IF k = 0 THEN [seq |-> acc, pos |-> pos, cost |-> cost, ok |-> FALSE]
  ELSE LET x == FR_Next(f, h, pos)
           c2 == [cmps |-> cost.cmps + x.r.cmps, hashes |-> cost.hashes + x.r.hashes, bad |-> cost.bad \/ x.r.bad] IN
       IF x.ret < 0 THEN [seq |-> acc, pos |-> x.pos, cost |-> c2, ok |-> TRUE]
       ELSE FR_Drain(f, h, x.pos, Append(acc, x.ret), c2, k - 1)
FR_All(f, h) == FR_Drain(f, h, FR_New(h), <<>>, [cmps |-> 0, hashes |-> 0, bad |-> FALSE], Len(h) + 3)
=============================================================================
