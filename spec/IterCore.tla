------------------------------ MODULE IterCore ------------------------------
(***************************************************************************)
(* The abstract machine of generic::Iter as pure functions on the window   *)
(* (lo, hi) -- shared by the action-style specification MemchrIter (which  *)
(* explores every call order) and by the validator Trace_MemchrIter        *)
(* (which checks recorded call histories of the real iterators).           *)
(***************************************************************************)
EXTENDS Bytes

\* next(): found = find(lo, hi); lo := found + 1
IT_Next(hay, S, w) ==
  LET r == FirstIn(hay, S, w.lo, w.hi) IN
  [ret |-> r, w |-> IF r >= 0 THEN [w EXCEPT !.lo = r + 1] ELSE w]
\* next_back(): found = rfind(lo, hi); hi := found
IT_NextBack(hay, S, w) ==
  LET r == LastIn(hay, S, w.lo, w.hi) IN
  [ret |-> r, w |-> IF r >= 0 THEN [w EXCEPT !.hi = r] ELSE w]
IT_Remaining(hay, S, w) == CountIn(hay, S, w.lo, w.hi)
IT_HintUpper(w) == w.hi - w.lo
IT_New(hay) == [lo |-> 0, hi |-> Len(hay)]
=============================================================================
