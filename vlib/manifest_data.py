"""Source of MANIFEST.json (bin/gen_manifest writes it)."""

TITLES = {
 "C01": "Forward byte search returns exactly the first matching position",
 "C02": "Reverse byte search returns exactly the last matching position",
 "C03": "Forward substring search returns exactly the leftmost occurrence",
 "C04": "Reverse substring search returns exactly the rightmost occurrence",
 "C05": "Safe searches never read outside the slices they are given",
 "C06": "Byte-search iterators yield every match exactly once in any call order",
 "C07": "Byte counting equals the number of matching bytes",
 "C08": "Substring iterators yield the greedy non-overlapping match sequence",
 "C09": "Every backend and build configuration returns identical answers",
 "C10": "Performance heuristics never change search results",
 "C11": "Candidate prefilters never skip a real match",
 "C12": "Each public substring building block agrees with naive search",
 "C13": "Substring search does work linear in haystack plus needle length",
 "C14": "No panic, abort or arithmetic overflow on any input in the documented domain",
 "C15": "Concurrent use gives the same answers as sequential use",
 "C16": "A finder is a pure function of its needle: reuse, clone, borrow, own",
 "C17": "Searching performs no heap allocation",
 "C18": "is_equal, is_prefix and is_suffix coincide with slice comparison",
 "C19": "Pair selection yields valid, distinct needle offsets for every ranker",
}

TRUST = ("TLC 1.8.0 and the TLA+ CommunityModules; the P-layer oracles in spec/Bytes.tla; the Rust harness in /verif/harness "
         "(value tables, affine stretch map, result comparison); the cfg(memchr_verif) hooks (event log, ScaledVec) in /repo/src/verif.rs")

# property -> dict(category, text, design_ref, note, technique)
CHECKS = {}

def add(pid, category, text, design_ref, note, technique):
    CHECKS[pid] = dict(category=category, text=text, design_ref=design_ref, note=note, technique=technique)

BYTES_TECH = ("TLA+ L-models GenericMemchr/Swar (+ VecOps mask lemmas, ArchMemchr routing) checked by TLC against the Bytes oracles; every TLC "
              "behaviour replayed into the real code (scaled generic instantiation, all backends, forced dispatch, simd128 copy, NEON under Miri) with "
              "load-sequence conformance; recorded executions validated by TLC (Trace_Lib); TLAPS proofs of the unbounded scan as supplement")
add("C01", "model_checking",
    "TLC exhausts the L-models of the generic vector search (VB=2,4,8 whole loop structure; VB=16,32 slices) and of the SWAR fallback "
    "(WB=2,4,8) over every length x start alignment x match placement within the listed bounds with invariants result=FirstMatch, "
    "loads in bounds/aligned, coverage and a linear step bound; every terminated behaviour is replayed on the real generic code at the "
    "model's width (result + load sequence must agree) and on every public backend/top-level function incl. forced SSE2-only and "
    "fallback dispatch, with needle-value tables and affine stretches. Model-checking strength inside the bounds, bound to the code by conformance.",
    "DESIGN.md 4 C01", TRUST + "; byte values covered by tables, not exhaustively", BYTES_TECH)
add("C02", "model_checking",
    "As C01 for the reverse actions (end-pointer alignment enumerated; result=LastMatch).",
    "DESIGN.md 4 C02", TRUST, BYTES_TECH)
add("C07", "model_checking",
    "As C01 for One::count_raw (scalar head, unrolled popcount loop, vector loop, scalar tail) incl. all-match haystacks with holes and "
    "all contents for short lengths; result=CountMatch; replayed on count/count_raw/iter.count of every backend.",
    "DESIGN.md 4 C07", TRUST, BYTES_TECH)

SUB_TECH = ("TLA+ loop-level models of the substring searchers (Two-Way incl. adaptive prefilter, packed pair, Rabin-Karp, Shift-Or, meta-searcher routing, "
            "iterators) checked by TLC against the Bytes oracles over all needles x haystacks within bounds; oracle vectors (incl. near-miss and foreign-byte "
            "families) replayed 1:1 and lifted (block substitution + padding, lemma checked by TLC) on the real API under each forced dispatch level; "
            "recorded executions at real constants validated by TLC (Trace_Lib / Trace_Objects); Two-Way preprocessing and step counts conform exactly")
add("C03", "model_checking",
    "MC_Memmem: for every needle (0..5/6 symbols) x haystack x CPU-feature outcome x prefilter setting x ranker, the composed loop-level model (routing, Rabin-Karp below the "
    "thresholds, packed pair with its length guard, Two-Way small/large period with the prefilter state threaded through) returns FindSub; MC_SubOracle emits every (needle, haystack) "
    "pair over {0,1}, {0,1,2} and binary-with-one-foreign-byte with its oracle values and checks the lifting lemma; vectors are executed 1:1, padded (>= 16 / >= 64 byte routes) and "
    "block-substituted (block a -> pad^q a pad^(s-1-q), needles > 32 bytes) on memmem::find, Finder::find, FinderBuilder under forced AVX2/SSE2/fallback, on the simd128 copy and "
    "(stratified sample) on NEON under Miri, each also on boundary prefixes of the haystack (TruncLemma). The routing constants are scaled in the model; the real constants are reached "
    "by the lifted replays and by recorded executions (structured, tail and stray families) validated by TLC.", "DESIGN.md 4 C03", TRUST + "; lifting lemma checked for s in {2,3} on bounded domains", SUB_TECH)
add("C04", "model_checking", "As C03 for the reverse searchers (Two-Way reverse suffixes/shift, reverse Rabin-Karp, SearcherRev routing): result = RFindSub; replay on memmem::rfind, FinderRev::rfind, build_reverse.",
    "DESIGN.md 4 C04", TRUST, SUB_TECH)
add("C05", "model_checking",
    "LoadsOK / aligned-loads-aligned are TLC invariants of every L-model with raw loads over every length x alignment x match placement x pair offset within bounds; the code is bound by "
    "executing every vector (byte search, substring incl. lifted, packed pair with extreme offsets, out-of-contract needles, is_equal family) with haystack and needle abutting PROT_NONE "
    "pages on both sides in process-isolated children (debug and release builds) and by checking every hooked load against the slices.", "DESIGN.md 4 C05",
    TRUST + "; SWAR word reads and byte loops are observed through guard pages / debug-build alignment checks only (no hook)", "TLA+ load-bound invariants + guard-page and hooked-load replay of TLC vectors")
add("C06", "model_checking",
    "MemchrIter (action-style): every match set of every haystack up to 9 (thorough 10) bytes x every interleaving of next/next_back until three Nones, all iterator invariants in every "
    "prefix; each complete behaviour replayed on Memchr/Memchr2/Memchr3 and One/Two/Three::iter of every backend (stretched too), with size_hint, clone futures and count().",
    "DESIGN.md 4 C06", TRUST, "TLA+ action spec of generic::Iter with history variable; all call orders replayed")
add("C08", "model_checking", "MC_Memmem with Parts iter/riter: FindIter (pos, prefilter state carried across next()) and FindRevIter (pos: Option) equal GreedyFwd/GreedyRev for all inputs/configs, "
    "empty needle yields every offset; replay drives find_iter/rfind_iter to exhaustion (+2 calls) checking size_hint at every step, also after into_owned() in the middle of an iteration.", "DESIGN.md 4 C08", TRUST, SUB_TECH)
add("C09", "model_checking", "Differential S->I: one TLC vector set executed in every configuration (forced AVX2/SSE2/fallback, features alloc/none, +avx2 at compile time, logging, release, "
    "rewritten simd128 copy; Miri aarch64/s390x/i686 as optional vehicles); all answers equal the model's.", "DESIGN.md 4 C09",
    TRUST + "; emulated wasm intrinsics; no x86-64-without-SSE2 build possible here", "configuration matrix replay of TLC vectors")
add("C10", "model_checking", "MC_Memmem with the ranker as a nondeterministic function (all 27 rankers on a 3-letter alphabet, all 4 on binary), both prefilter settings, every CPU outcome: results and "
    "complete find_iter sequences equal the oracle for all; replay under a ranker table x Prefilter::{None,Auto} x forced dispatch, lifted so needles exceed 32 bytes; recorded executions "
    "(structured / tail / stray families, default + identity + reversed + needle-bytes-commonest rankers, prefilter on and off) validated by TLC.", "DESIGN.md 4 C10", TRUST, SUB_TECH)
add("C11", "model_checking", "MC_PackedPair: all needles x every ordered offset pair x all haystack contents; prefilter <= FindSub, None => absent, candidate has both pair bytes, = F-spec; both mask kinds; "
    "replayed on the real generic code at VB=2,4 and padded on SSE2/AVX2/portable; the meta searcher's private short-haystack fallback (searcher.rs) is reached through searches with "
    "needles > 32 bytes (lifted vectors with boundary truncations, recorded tail family) on host, simd128 copy and NEON under Miri.", "DESIGN.md 4 C11", TRUST + "; NEON/simd128 prefilters via optional vehicles", "TLA+ L-model of packed-pair prefilter + exact replay on scaled generic code")
add("C12", "model_checking", "MC_TwoWay/MC_SubBlocks1/MC_PackedPair step the building blocks over all needles x haystacks over 2/3-letter alphabets; replay on twoway/rabinkarp/shiftor/packedpair finders (1:1, lifted); constructors probed with out-of-range / equal pair offsets and over-long Shift-Or needles (must return None).",
    "DESIGN.md 4 C12", TRUST, SUB_TECH)
add("C13", "model_checking", "Linear-work invariants on the cost-annotated L-models (exhaustive on bounded domains) + Trace_Cost validation of the hooks' deterministic step counters on adversarial "
    "families up to 2^18 (thorough 2^22) bytes, and on needle-only records (every needle shape, its mirror image, shapes with a defect in the middle; up to 16384 bytes) for the cost of "
    "building forward and reverse finders, and on haystacks shorter than twice the needle. An asymptotic claim is decided only up to explored sizes/families.", "DESIGN.md 4 C13, 8", TRUST + "; counters from cfg(memchr_verif) hooks", "cost-annotated TLA+ models + TLC trace validation of recorded step counters")
add("C14", "model_checking", "bad/panic flags of all L-models are invariants; all vector families executed with debug assertions and overflow checks under catch_unwind; packed-pair panic exactly below "
    "min_haystack_len; finders built from pairs with offsets up to 254 (portable / SSE2 / AVX2 with_pair, Finder::new on needles up to 600 bytes) and the extreme-offset packed-pair family; MC_PrefilterState explores every is_effective/update sequence at a scaled counter width (NoOverflow) and the real-width witness (> 2^29 prefilter calls on a 5.4 GB "
    "haystack) of the genuine defect found with this machinery (u32 multiplication overflow, repaired by /repo commit df0e36e, see known_findings.json) is re-run on every check.",
    "DESIGN.md 4 C14, 11.3a", TRUST + "; the 5.4 GB witness needs >= 12 GB of free memory (otherwise listed as skipped)", "TLA+ NoPanic/NoOverflow invariants + replay in checked builds + real-width overflow witness")
add("C15", "model_checking", "Ifunc: every interleaving of 3 threads x 2 calls with Relaxed semantics (modification order + views), all CPU outcomes, liveness under WF; native racing first calls in fresh processes "
    "and shared finders (short needles; and a > 32-byte needle whose adaptive prefilter one thread exhausts while the others are mid-search) validated by TLC (Trace_Lib); dispatcher events "
    "checked against the per-thread projection; the same scenario under host Miri with seed-controlled schedules (optional vehicle).", "DESIGN.md 4 C15", TRUST + "; real schedules sampled", "TLA+ action spec with relaxed-memory views + trace validation of racing executions")
add("C16", "model_checking", "MC_MemmemObjects: every order of find/next/clone/clone_next/into_owned/drop_buffer up to Depth; history independence and clone/owned futures; replayed on real objects with the "
    "needle buffer really overwritten and dropped; the lifted near-miss family (needles > 32 bytes) exercises reuse of one finder across haystacks that leave Two-Way / the prefilter in every intermediate state.", "DESIGN.md 4 C16", TRUST, "TLA+ action spec of finder/iterator objects; behaviours replayed")
add("C17", "exploration", "Counting global allocator armed per call over every oracle vector (1:1, lifted, every dispatch level; find / rfind / iterators / builder configurations incl. caller-supplied rankers) and every iterator behaviour; the spec contributes the operation classification "
    "(Trace_Lib: al = 0 unless own) and the inputs, no exhaustiveness.", "DESIGN.md 4 C17, 8", TRUST + "; allocation is not modelled inside actions", "allocation counting on TLC-generated inputs")
add("C18", "model_checking", "MC_IsEqual: all binary pairs up to 7/8 bytes + equal-length pairs up to 48/72 bytes with <= 2 differences; L-model of the 4/2/1 loop = equality, wrappers = starts_with/ends_with; replay with "
    "8x8 alignments, guard pages, aliasing operands.", "DESIGN.md 4 C18", TRUST, "TLA+ L-model of is_equal_raw + replay")
add("C19", "model_checking", "MC_Pair: all needles over 3 letters x 27 rankers with scaled cap, long needles around the real cap 255; with_indices acceptance; finders report their pair and min length.",
    "DESIGN.md 4 C19", TRUST, "TLA+ L-model of pair selection + replay")

NOT_YET = {}

for p in TITLES:
    if p not in CHECKS:
        NOT_YET[p] = "check under construction in this round (see DESIGN.md section 10 for the order); no claim is made yet"
