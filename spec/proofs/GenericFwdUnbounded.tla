------------------------- MODULE GenericFwdUnbounded -------------------------
(***************************************************************************)
(* Unbounded supplement to GenericMemchr (C01/C05), proved with TLAPS: the *)
(* forward scan of generic::One/Two/Three::find_raw for an ARBITRARY vector*)
(* width V >= 1, unroll factor U >= 1, haystack length N >= V, start       *)
(* alignment (abstracted: the first aligned cursor c1 is any value in      *)
(* 1..V) and match set M.  Positions are offsets from `start`.             *)
(*   head : chunk [0, V);              cur := c1                           *)
(*   loop : while cur + U*V <= N (only if N >= U*V): U chunks at cur       *)
(*   vec  : while cur + V <= N: chunk at cur                               *)
(*   tail : if cur < N: chunk at N - V                                     *)
(* A chunk with a match ends the search with the least match in the chunk. *)
(* Theorems:  every load lies inside [0, N)  (LoadsInBounds),              *)
(*            no match lies before the cursor (NoMatchBefore),             *)
(*            the search returns the first match / None iff there is none. *)
(***************************************************************************)
EXTENDS Integers, TLAPS

CONSTANTS V, U, N, M, c1
ASSUME VAssump == V \in Nat /\ V >= 1
ASSUME UAssump == U \in Nat /\ U >= 1
ASSUME NAssump == N \in Nat /\ N >= V
ASSUME MAssump == M \subseteq 0..(N - 1)
ASSUME CAssump == c1 \in 1..V

VARIABLES pc, cur, res, lo, hi      \* [lo, hi) = the byte range of the most recent load (hi = lo for "no load yet")

vars == <<pc, cur, res, lo, hi>>

HasMatch(a, b) == \E p \in M : a <= p /\ p < b
IsFirstIn(r, a, b) == r \in M /\ a <= r /\ r < b /\ \A q \in M : (a <= q /\ q < b) => r <= q

Init == pc = "head" /\ cur = 0 /\ res = -2 /\ lo = 0 /\ hi = 0

Head == /\ pc = "head"
        /\ lo' = 0 /\ hi' = V
        /\ IF HasMatch(0, V)
           THEN /\ \E r \in M : IsFirstIn(r, 0, V) /\ res' = r
                /\ pc' = "done" /\ cur' = cur
           ELSE /\ cur' = c1 /\ res' = res
                /\ pc' = IF N >= U * V THEN "loop" ELSE "vec"
Loop == /\ pc = "loop"
        /\ IF cur + U * V <= N
           THEN /\ lo' = cur /\ hi' = cur + U * V
                /\ IF HasMatch(cur, cur + U * V)
                   THEN /\ \E r \in M : IsFirstIn(r, cur, cur + U * V) /\ res' = r
                        /\ pc' = "done" /\ cur' = cur
                   ELSE cur' = cur + U * V /\ res' = res /\ pc' = "loop"
           ELSE pc' = "vec" /\ UNCHANGED <<cur, res, lo, hi>>
Vec == /\ pc = "vec"
       /\ IF cur + V <= N
          THEN /\ lo' = cur /\ hi' = cur + V
               /\ IF HasMatch(cur, cur + V)
                  THEN /\ \E r \in M : IsFirstIn(r, cur, cur + V) /\ res' = r
                       /\ pc' = "done" /\ cur' = cur
                  ELSE cur' = cur + V /\ res' = res /\ pc' = "vec"
          ELSE pc' = "tail" /\ UNCHANGED <<cur, res, lo, hi>>
Tail == /\ pc = "tail"
        /\ IF cur < N
           THEN /\ lo' = N - V /\ hi' = N
                /\ cur' = N - V
                /\ IF HasMatch(N - V, N)
                   THEN \E r \in M : IsFirstIn(r, N - V, N) /\ res' = r
                   ELSE res' = -1
                /\ pc' = "done"
           ELSE res' = -1 /\ pc' = "done" /\ UNCHANGED <<cur, lo, hi>>
Next == Head \/ Loop \/ Vec \/ Tail
Spec == Init /\ [][Next]_vars

TypeOK == /\ pc \in {"head", "loop", "vec", "tail", "done"}
          /\ cur \in Int /\ res \in Int /\ lo \in Int /\ hi \in Int
\* every load is inside the haystack (C05 at arbitrary width / length)
LoadsInBounds == 0 <= lo /\ lo <= hi /\ hi <= N
\* while scanning, nothing before the cursor matches, and the cursor has passed the head chunk
Scanned == pc \in {"loop", "vec", "tail"} => (cur >= 1 /\ cur <= N + U * V /\ ~HasMatch(0, cur) /\ (pc = "tail" => cur + V > N))
\* the answer (C01 at arbitrary width / length)
Correct == pc = "done" => \/ (res = -1 /\ ~HasMatch(0, N))
                          \/ (res \in M /\ \A q \in M : res <= q)
Inv == TypeOK /\ LoadsInBounds /\ Scanned /\ Correct

THEOREM InitInv == Init => Inv
  BY VAssump, NAssump DEF Init, Inv, TypeOK, LoadsInBounds, Scanned, Correct

THEOREM NextInv == Inv /\ [Next]_vars => Inv'
<1> SUFFICES ASSUME Inv, [Next]_vars PROVE Inv'
  OBVIOUS
<1> USE VAssump, UAssump, NAssump, MAssump, CAssump
<1>0. U * V \in Nat /\ U * V >= V
  BY VAssump, UAssump
<1>1. CASE Head
  BY <1>1, <1>0 DEF Head, Inv, TypeOK, LoadsInBounds, Scanned, Correct, HasMatch, IsFirstIn
<1>2. CASE Loop
  BY <1>2, <1>0 DEF Loop, Inv, TypeOK, LoadsInBounds, Scanned, Correct, HasMatch, IsFirstIn
<1>3. CASE Vec
  BY <1>3, <1>0 DEF Vec, Inv, TypeOK, LoadsInBounds, Scanned, Correct, HasMatch, IsFirstIn
<1>4. CASE Tail
  BY <1>4, <1>0 DEF Tail, Inv, TypeOK, LoadsInBounds, Scanned, Correct, HasMatch, IsFirstIn
<1>5. CASE UNCHANGED vars
  BY <1>5 DEF vars, Inv, TypeOK, LoadsInBounds, Scanned, Correct, HasMatch
<1> QED BY <1>1, <1>2, <1>3, <1>4, <1>5 DEF Next

THEOREM Safety == Spec => []Inv
  BY InitInv, NextInv, PTL DEF Spec
=============================================================================
