-------------------------- MODULE MC_MemmemObjects --------------------------
(***************************************************************************)
(* Action-style specification of the substring OBJECTS of                  *)
(* src/memmem/mod.rs: one Finder built from a borrowed needle, searched    *)
(* over several haystacks in any order, a FindIter over the first          *)
(* haystack, clone() of the partially consumed iterator, into_owned() of   *)
(* finder and iterators, and the death of the original needle buffer.      *)
(* The caller's choice of the next operation is the nondeterminism; `hist` *)
(* keeps the call history so that every operation ORDER up to Depth is a   *)
(* distinct behaviour.  State: the finder is immutable (needle + strategy);*)
(* an iterator is (pos, prefilter state); clone/into_owned copy it.        *)
(***************************************************************************)
EXTENDS Memmem, TLC, Json
CONSTANTS Alpha, MinN, MaxN, MaxH, Avails, Prefs, Depth, Emit
Cfgs == {[avail |-> a, prefilter |-> p, rank |-> [x \in Alpha |-> 0]] : a \in Avails, p \in Prefs}
VARIABLES n, hs, cfg, it, cl, owned, alive, hist
vars == <<n, hs, cfg, it, cl, owned, alive, hist>>
F == MM_Finder(n, cfg)
NoClone == [pos |-> -1, ps |-> PS_New]
Init == /\ n \in Seqs(Alpha, MinN, MaxN)
        \* first haystack: at least two greedy matches (so that the iterator has a middle); second: its mirror image
        /\ \E h1 \in Seqs(Alpha, MaxH, MaxH) : Len(GreedyFwd(h1, n)) >= 2 /\ hs = <<h1, Reverse(h1)>>
        /\ cfg \in Cfgs
        /\ it = FI_New /\ cl = NoClone /\ owned = FALSE /\ alive = TRUE /\ hist = <<>>
Usable == alive \/ owned                 \* a borrowed object cannot outlive the needle buffer (enforced by the borrow checker)
More == Len(hist) < Depth
Find(k) == /\ More /\ Usable
           /\ hist' = Append(hist, [op |-> "find", k |-> k, ret |-> MM_FinderFind(F, hs[k]).res])
           /\ UNCHANGED <<n, hs, cfg, it, cl, owned, alive>>
IterNext == /\ More /\ Usable
            /\ LET x == FI_Next(F, hs[1], it) IN
               /\ it' = x.it
               /\ hist' = Append(hist, [op |-> "next", k |-> 0, ret |-> x.ret])
            /\ UNCHANGED <<n, hs, cfg, cl, owned, alive>>
CloneNext == /\ More /\ Usable /\ cl.pos >= 0
             /\ LET x == FI_Next(F, hs[1], cl) IN
                /\ cl' = x.it
                /\ hist' = Append(hist, [op |-> "clone_next", k |-> 0, ret |-> x.ret])
             /\ UNCHANGED <<n, hs, cfg, it, owned, alive>>
Clone == /\ More /\ Usable /\ cl.pos < 0
         /\ cl' = it
         /\ hist' = Append(hist, [op |-> "clone", k |-> 0, ret |-> 0])
         /\ UNCHANGED <<n, hs, cfg, it, owned, alive>>
IntoOwned == /\ More /\ alive /\ ~owned
             /\ owned' = TRUE
             /\ hist' = Append(hist, [op |-> "into_owned", k |-> 0, ret |-> 0])
             /\ UNCHANGED <<n, hs, cfg, it, cl, alive>>
DropBuffer == /\ More /\ owned /\ alive
              /\ alive' = FALSE
              /\ hist' = Append(hist, [op |-> "drop_buffer", k |-> 0, ret |-> 0])
              /\ UNCHANGED <<n, hs, cfg, it, cl, owned>>
Next == (\E k \in 1..2 : Find(k)) \/ IterNext \/ CloneNext \/ Clone \/ IntoOwned \/ DropBuffer
Spec == Init /\ [][Next]_vars

\* history independence: every find equals the oracle whatever happened before
FindPure == \A i \in 1..Len(hist) : hist[i].op = "find" => hist[i].ret = FindSub(hs[hist[i].k], n)
Rets(op) == LET s == SelectSeq(hist, LAMBDA e : e.op = op) IN [i \in 1..Len(s) |-> s[i].ret]
Somes(q) == SelectSeq(q, LAMBDA r : r >= 0)
IsPrefixOf(a, b) == Len(a) <= Len(b) /\ \A i \in 1..Len(a) : a[i] = b[i]
\* the main iterator yields a prefix of the greedy sequence and then None forever
IterGreedy == /\ IsPrefixOf(Somes(Rets("next")), GreedyFwd(hs[1], n))
              /\ \A i, j \in 1..Len(Rets("next")) : (i < j /\ Rets("next")[i] < 0) => Rets("next")[j] < 0
              /\ (\E i \in 1..Len(Rets("next")) : Rets("next")[i] < 0) => Somes(Rets("next")) = GreedyFwd(hs[1], n)
\* the clone continues from the point where it was taken
ClonePoint == Len(Somes(Rets("next")))     \* only meaningful in the state right after Clone; recorded in the history instead
CloneGreedy ==
  LET ci == {i \in 1..Len(hist) : hist[i].op = "clone"} IN
  ci # {} =>
    LET c == CHOOSE i \in ci : TRUE
        before == Somes([i \in 1..Len(SelectSeq(SubSeq(hist, 1, c), LAMBDA e : e.op = "next")) |-> SelectSeq(SubSeq(hist, 1, c), LAMBDA e : e.op = "next")[i].ret])
    IN IsPrefixOf(before \o Somes(Rets("clone_next")), GreedyFwd(hs[1], n))
Vector == [m |-> "obj", n |-> n, h1 |-> hs[1], h2 |-> hs[2], ops |-> hist]
EmitReplay == (Emit /\ Len(hist) = Depth) => PrintT(<<"REPLAY", ToJson(Vector)>>)
=============================================================================
