"""Optional vehicles: executions of the real code for foreign architectures under Miri
(aarch64: the real NEON Vector/mask code and arch/aarch64; s390x: big-endian; i686: 32-bit words).
Miri is used purely as an interpreter; verdicts still compare with the TLC vectors' expected values.
Any infrastructure problem (toolchain, sysroot, build, timeout, unsupported operation) skips the vehicle."""
import json
import os
import random
import subprocess
import time

from . import common as C
from .common import ToolError, log

TARGETS = {
    "neon": "aarch64-unknown-linux-gnu",
    "be64": "s390x-unknown-linux-gnu",
    "le32": "i686-unknown-linux-gnu",
}
RUSTFLAGS = "--cfg memchr_verif --check-cfg cfg(memchr_verif) --check-cfg cfg(verif_wasm) --check-cfg cfg(verif_x86)"


def sysroot(name, build=True, timeout=300):
    d = os.path.join(C.WORK, "miri", "sysroot-" + name)
    if os.path.isdir(os.path.join(d, "lib")):
        return d
    if not build:
        raise ToolError("no Miri sysroot for %s" % name)
    env = dict(os.environ, MIRI_SYSROOT=d, CARGO_NET_OFFLINE="true")
    os.makedirs(os.path.dirname(d), exist_ok=True)
    p = subprocess.run(["timeout", str(timeout), "cargo", "+nightly", "miri", "setup", "--target", TARGETS[name]], cwd=C.HARNESS, env=env,
                       stdout=subprocess.PIPE, stderr=subprocess.STDOUT, text=True)
    if p.returncode != 0:
        raise ToolError("miri setup for %s failed: %s" % (name, p.stdout[-400:]))
    return d


def _stratified(lines, key, n, rnd):
    """Deterministic stratified sample: round-robin over the strata (shuffled inside), so that every stratum that exists
    in the vector set is represented before any stratum gets a second line."""
    strata = {}
    for line in lines:
        strata.setdefault(key(line), []).append(line)
    keys = sorted(strata, key=repr)
    for k in keys:
        rnd.shuffle(strata[k])
    out, i = [], 0
    while len(out) < n and any(strata[k] for k in keys):
        for k in keys:
            if strata[k] and len(out) < n:
                out.append(strata[k].pop())
        i += 1
    return out, len(keys)


def to_lines(vec_paths, n_bytes, n_sub, seed):
    """Deterministic sample of vectors in the lean text format of harness/src/miri_sample.rs. Miri is ~1000x slower than
    native code, so the sample is stratified instead of uniform: byte-search vectors by (model, width, operation, number
    of needles, set of loop arms the L-model took), substring vectors by (needle length, no match / match at the very
    start / in the middle / ending exactly at the end of the haystack, number of matches capped at 3)."""
    rnd = random.Random(seed)
    gl, ml = [], []
    graw, mraw = [], []
    for vp in vec_paths:
        with open(vp) as f:
            for line in f:
                if '"m":"mm"' in line:
                    mraw.append(line)
                elif '"m":"generic"' in line or '"m":"swar"' in line:
                    graw.append(line)
    cap = 250000        # parsing is the cost; the strata are found in a uniform subsample of this size
    gl = [json.loads(l) for l in (graw if len(graw) <= cap else rnd.sample(graw, cap))]
    ml = [json.loads(l) for l in (mraw if len(mraw) <= cap else rnd.sample(mraw, cap))]

    def gkey(v):
        return (v["m"], v.get("vb"), v["op"], v["nn"], tuple(sorted(v.get("arms", []))))

    def mkey(v):
        nl, hl, f = len(v["n"]), len(v["h"]), v["find"]
        pos = "none" if f < 0 else "start" if f == 0 and v["rfind"] + nl != hl else "end" if v["rfind"] + nl == hl else "mid"
        return (nl, pos, min(len(v["fwd"]), 3))

    gs, gk = _stratified(gl, gkey, n_bytes, rnd)
    ms, mk = _stratified(ml, mkey, n_sub, rnd)
    out = []
    cs = lambda xs: ",".join(str(x) for x in xs) if xs else "-"
    for v in gs:
        if v["fill"] == 0:
            pts = sorted(v["pts"])
        else:
            pts = [i for i in range(v["len"]) if i not in v["pts"]]
        out.append("G %s %d %d %d %s" % (v["op"], v["nn"], v["len"], v["res"], cs(pts)))
    for v in ms:
        out.append("M %d %d %s %s %s %s" % (v["find"], v["rfind"], cs(v["n"]), cs(v["h"]), cs(v["fwd"]), cs(v["rev"])))
    return out, {"byte_search_strata": gk, "substring_strata": mk}


def run_target(ctx, name, lines, classes, par=6, timeout=420):
    sr = sysroot(name)
    env = dict(os.environ, MIRI_SYSROOT=sr, CARGO_TARGET_DIR=os.path.join(C.WORK, "target-miri"), RUSTFLAGS=RUSTFLAGS,
               MIRIFLAGS="-Zmiri-disable-isolation", CARGO_NET_OFFLINE="true")
    d = os.path.join(ctx.dir, "miri_" + name)
    os.makedirs(d, exist_ok=True)
    # build once (first chunk run compiles; do a tiny run first so that the parallel runs do not race on the target dir)
    warm = os.path.join(d, "warm.txt")
    open(warm, "w").write("G find 1 4 1 1\n")
    base = ["cargo", "+nightly", "miri", "run", "--offline", "--quiet", "--target", TARGETS[name], "--", "miri-sample", "--seed", str(ctx.seed)]
    with C.build_lock():
        p = subprocess.run(["timeout", str(timeout)] + base + ["--in", warm], cwd=C.HARNESS, env=env, stdout=subprocess.PIPE, stderr=subprocess.PIPE, text=True)
    if p.returncode != 0 or "MIRI-SAMPLE" not in p.stdout:
        raise ToolError("miri build/run for %s failed (rc=%s): %s" % (name, p.returncode, (p.stderr or p.stdout)[-300:]))
    chunks = [lines[i::par] for i in range(par)]
    procs = []
    for i, ch in enumerate(chunks):
        if not ch:
            continue
        fp = os.path.join(d, "chunk%d.txt" % i)
        open(fp, "w").write("\n".join(ch) + "\n")
        procs.append((subprocess.Popen(["timeout", str(timeout)] + base + ["--in", fp], cwd=C.HARNESS, env=env, stdout=subprocess.PIPE, stderr=subprocess.PIPE, text=True), fp))
    execs = 0
    done_chunks = 0
    for pr, fp in procs:
        out, err = pr.communicate()
        if pr.returncode == 124:
            ctx.vehicles_skipped.append({"vehicle": name, "reason": "chunk timeout (%s)" % os.path.basename(fp)})
            continue
        if pr.returncode != 0:
            if "Undefined Behavior" in err and ("out-of-bounds" in err or "alignment" in err or "dangling" in err):
                msg = [l for l in err.splitlines() if "Undefined Behavior" in l][:1]
                if "oob" in classes or "misaligned" in classes:
                    ctx.violation("miri:%s:%s" % (name, msg), "Miri (%s) detected a memory-access error in the code under test: %s" % (name, msg), {"chunk": open(fp).read()[:2000]})
                else:
                    ctx.note("Miri (%s) memory-access error (decided by C05): %s" % (name, msg))
            else:
                first = [l.strip() for l in err.splitlines() if l.startswith("error")][:1]
                ctx.vehicles_skipped.append({"vehicle": name, "reason": "miri exited %s on %s: %s" % (pr.returncode, os.path.basename(fp), (first[0] if first else err[-200:])[:300])})
            continue
        done_chunks += 1
        for l in out.splitlines():
            if l.startswith("FINDING\t"):
                _, cls, what, src = l.split("\t", 3)
                if cls in classes:
                    ctx.violation("miri:%s:%s:%s" % (name, cls, what), "[%s under Miri] %s" % (name, what), {"vector_line": src, "target": TARGETS[name]})
                else:
                    ctx.note("[%s under Miri] %s finding decided by another property: %s" % (name, cls, what))
            elif l.startswith("MIRI-SAMPLE"):
                execs += int(l.split("execs=")[1].split("\t")[0])
    ctx.add_counters({"miri_exec": execs}, prefix=name + ".")
    return execs, done_chunks


def run(ctx, vecs, classes, executed, targets=None, n_bytes=None, n_sub=None):
    q = ctx.quick
    targets = targets or (["neon"] if q else ["neon", "be64", "le32"])
    nb = n_bytes if n_bytes is not None else (300 if q else 1500)
    ns = n_sub if n_sub is not None else (60 if q else 600)
    lines, strata = to_lines(vecs, nb, ns, ctx.seed)
    ctx.add_counters(strata, prefix="miri_sample.")

    def one(name):
        t0 = time.time()
        try:
            execs, chunks = run_target(ctx, name, lines, classes, par=(8 if q else 12) if len(targets) == 1 else 5, timeout=300 if q else 1500)
            if chunks:
                with ctx.lock:
                    executed.append("%s (Miri, %d calls)" % (name, execs))
            log("[miri] %s: %d calls in %.1fs" % (name, execs, time.time() - t0))
        except ToolError as e:
            with ctx.lock:
                ctx.vehicles_skipped.append({"vehicle": name, "reason": str(e)[:300]})
            log("[miri] %s skipped: %s" % (name, str(e)[:200]))

    C.parallel([(lambda n=n: one(n)) for n in targets])


def conc_host(ctx, seeds, threads=4, rounds=1, timeout=400):
    """C15 vehicle: the racing-first-calls scenario under host Miri with seed-controlled schedules and a non-zero
    preemption rate (stale Relaxed reads happen deterministically per seed). Returns the list of trace files."""
    d = os.path.join(C.WORK, "miri", "sysroot-host")
    if not os.path.isdir(os.path.join(d, "lib")):
        env = dict(os.environ, MIRI_SYSROOT=d, CARGO_NET_OFFLINE="true")
        p = subprocess.run(["timeout", "300", "cargo", "+nightly", "miri", "setup"], cwd=C.HARNESS, env=env, stdout=subprocess.PIPE, stderr=subprocess.STDOUT, text=True)
        if p.returncode != 0:
            raise ToolError("miri setup (host) failed: " + p.stdout[-300:])
    out = []
    procs = []
    od = os.path.join(ctx.dir, "miri_conc")
    os.makedirs(od, exist_ok=True)
    for sd in seeds:
        tr = os.path.join(od, "conc_seed%d.ndjson" % sd)
        env = dict(os.environ, MIRI_SYSROOT=d, CARGO_TARGET_DIR=os.path.join(C.WORK, "target-miri"), CARGO_NET_OFFLINE="true",
                   RUSTFLAGS=RUSTFLAGS + " --cfg verif_x86",
                   MIRIFLAGS="-Zmiri-disable-isolation -Zmiri-seed=%d -Zmiri-preemption-rate=%s" % (sd, ["0.2", "0.05", "0.5"][sd % 3]))
        cmd = ["timeout", str(timeout), "cargo", "+nightly", "miri", "run", "--offline", "--quiet", "--", "conc-child", "--trace", tr,
               "--threads", str(threads), "--seed", str(sd), "--rounds", str(rounds)]
        if not procs:
            # a tiny warm-up run builds the harness for the host Miri target, so that the parallel runs do not race on the target directory
            warm = cmd[:-8] + ["conc-child", "--trace", tr + ".warm", "--threads", "1", "--seed", "0", "--rounds", "0"]
            p = subprocess.run(warm, cwd=C.HARNESS, env=env, stdout=subprocess.PIPE, stderr=subprocess.PIPE, text=True)
            if p.returncode != 0:
                raise ToolError("miri (host) run failed rc=%s: %s" % (p.returncode, p.stderr[-300:]))
            procs.append(None)
        procs.append((subprocess.Popen(cmd, cwd=C.HARNESS, env=env, stdout=subprocess.PIPE, stderr=subprocess.PIPE, text=True), tr, sd))
    for it in procs[1:]:
        pr, tr, sd = it
        o, e = pr.communicate()
        if pr.returncode == 0 and os.path.exists(tr):
            out.append(tr)
        elif "Undefined Behavior" in e and "Data race" in e:
            ctx.violation("miri-host:data-race:seed%d" % sd, "Miri detected a data race in the code under test (seed %d): %s" % (sd, [l for l in e.splitlines() if "Data race" in l][:1]), {"seed": sd})
        else:
            ctx.vehicles_skipped.append({"vehicle": "miri-host seed %d" % sd, "reason": "rc=%s %s" % (pr.returncode, e[-200:])})
    return out
