----------------------------- MODULE ArchMemchr -----------------------------
(***************************************************************************)
(* F-layer model of the architecture wrappers around the generic vector    *)
(* code and of the top-level dispatch (src/arch/x86_64/{memchr.rs,         *)
(* sse2/memchr.rs, avx2/memchr.rs}, src/arch/aarch64/*, src/arch/wasm32/*, *)
(* src/memchr.rs): which algorithm serves a haystack of a given length.    *)
(*                                                                         *)
(*   start >= end                      -> None / 0 without touching memory *)
(*   sse2 / neon / simd128 searcher    : len < 16 -> byte loop             *)
(*                                       else generic<16>                  *)
(*   avx2 searcher                     : len < 32 -> (len < 16 -> byte     *)
(*                                       loop, else generic<16> through    *)
(*                                       the SSE2 instance it holds)       *)
(*                                       else generic<32>                  *)
(*   fallback (arch::all)              : SWAR                              *)
(*   top level on x86-64               : the dispatcher's choice (Ifunc):  *)
(*                                       avx2 > sse2 > fallback            *)
(* The lemma that matters for memory safety: the generic code's            *)
(* precondition len >= V::BYTES is established on every route.             *)
(***************************************************************************)
EXTENDS Integers

Route(impl, len) ==
  IF len = 0 THEN [alg |-> "none", vb |-> 0]
  ELSE CASE impl = "avx2" -> IF len < 32 THEN (IF len < 16 THEN [alg |-> "bytes", vb |-> 0] ELSE [alg |-> "generic", vb |-> 16])
                             ELSE [alg |-> "generic", vb |-> 32]
         [] impl \in {"sse2", "neon", "simd128"} -> IF len < 16 THEN [alg |-> "bytes", vb |-> 0] ELSE [alg |-> "generic", vb |-> 16]
         [] impl = "fallback" -> [alg |-> "swar", vb |-> 0]

TopRoute(avail, len) == Route(avail, len)      \* the dispatcher installs the implementation named by `avail`

GenericPrecondOK == \A impl \in {"avx2", "sse2", "neon", "simd128", "fallback"} : \A len \in 0..200 :
   Route(impl, len).alg = "generic" => len >= Route(impl, len).vb
\* every non-empty haystack is served by exactly one algorithm, and vector code is never used below 16 bytes
RouteTotal == \A impl \in {"avx2", "sse2", "neon", "simd128", "fallback"} : \A len \in 1..200 :
   /\ Route(impl, len).alg \in {"bytes", "generic", "swar"}
   /\ (len < 16 => Route(impl, len).alg # "generic")
ASSUME GenericPrecondOK
ASSUME RouteTotal
=============================================================================
