---------------------------- MODULE SwarFwdUnbounded ----------------------------
(***************************************************************************)
(* Unbounded supplement to Swar (C01/C05), proved with TLAPS: the portable *)
(* fallback One/Two/Three::find_raw for ARBITRARY word size W >= 1, words  *)
(* per loop iteration LW >= 1 (2 for One, 1 for Two/Three), haystack       *)
(* length N, start alignment (first aligned cursor c1 in 1..W) and match   *)
(* set M.  has_needle(word) is "some byte of the word matches" (exactness  *)
(* of the bit trick: Swar.HasZeroByteExact).                               *)
(*   N = 0 -> None; N < W -> byte loop over [0, N)                         *)
(*   first : unaligned word [0, W): hit -> byte loop from 0; cur := c1     *)
(*   short : (One only, N <= LW*W) byte loop from cur                      *)
(*   loop  : while cur + LW*W <= N: LW aligned words; hit -> break;        *)
(*           cur += LW*W                                                   *)
(*   bytes : byte loop over [cur, N)                                       *)
(* Theorems: every word load lies inside [0, N); the result is the first   *)
(* match or None iff there is none.                                        *)
(***************************************************************************)
EXTENDS Integers, TLAPS

CONSTANTS W, LW, N, M, c1, Shortcut
ASSUME WAssump == W \in Nat /\ W >= 1
ASSUME LAssump == LW \in Nat /\ LW >= 1
ASSUME NAssump == N \in Nat
ASSUME MAssump == M \subseteq 0..(N - 1)
ASSUME CAssump == c1 \in 1..W
ASSUME SAssump == Shortcut \in BOOLEAN

VARIABLES pc, cur, res, lo, hi
vars == <<pc, cur, res, lo, hi>>

HasMatch(a, b) == \E p \in M : a <= p /\ p < b
IsFirstFrom(r, a) == r \in M /\ a <= r /\ \A q \in M : a <= q => r <= q

Init == pc = "entry" /\ cur = 0 /\ res = -2 /\ lo = 0 /\ hi = 0

\* generic::fwd_byte_by_byte(cur, end)
Bytes == /\ pc = "bytes"
         /\ IF HasMatch(cur, N) THEN \E r \in M : IsFirstFrom(r, cur) /\ res' = r ELSE res' = -1
         /\ pc' = "done" /\ UNCHANGED <<cur, lo, hi>>
Entry == /\ pc = "entry"
         /\ IF N = 0 THEN res' = -1 /\ pc' = "done" /\ UNCHANGED <<cur, lo, hi>>
            ELSE IF N < W THEN pc' = "bytes" /\ UNCHANGED <<cur, res, lo, hi>>
            ELSE /\ lo' = 0 /\ hi' = W /\ res' = res
                 /\ IF HasMatch(0, W) THEN pc' = "bytes" /\ cur' = 0
                    ELSE /\ cur' = c1
                         /\ pc' = IF Shortcut /\ N <= LW * W THEN "bytes" ELSE "loop"
Loop == /\ pc = "loop"
        /\ IF cur + LW * W <= N
           THEN /\ lo' = cur /\ hi' = cur + LW * W /\ res' = res
                /\ IF HasMatch(cur, cur + LW * W) THEN pc' = "bytes" /\ cur' = cur
                   ELSE pc' = "loop" /\ cur' = cur + LW * W
           ELSE pc' = "bytes" /\ UNCHANGED <<cur, res, lo, hi>>
Next == Entry \/ Loop \/ Bytes
Spec == Init /\ [][Next]_vars

TypeOK == pc \in {"entry", "loop", "bytes", "done"} /\ cur \in Int /\ res \in Int /\ lo \in Int /\ hi \in Int
LoadsInBounds == 0 <= lo /\ lo <= hi /\ hi <= N
Scanned == /\ (pc = "entry" => cur = 0)
           /\ (pc \in {"loop", "bytes"} => (0 <= cur /\ cur <= N /\ ~HasMatch(0, cur)))
Correct == pc = "done" => \/ (res = -1 /\ ~HasMatch(0, N))
                          \/ (res \in M /\ \A q \in M : res <= q)
Inv == TypeOK /\ LoadsInBounds /\ Scanned /\ Correct

THEOREM InitInv == Init => Inv
  BY NAssump DEF Init, Inv, TypeOK, LoadsInBounds, Scanned, Correct

THEOREM NextInv == Inv /\ [Next]_vars => Inv'
<1> SUFFICES ASSUME Inv, [Next]_vars PROVE Inv'
  OBVIOUS
<1> USE WAssump, LAssump, NAssump, MAssump, CAssump, SAssump
<1>0. LW * W \in Nat /\ LW * W >= W
  BY WAssump, LAssump
<1>1. CASE Entry
  BY <1>1, <1>0 DEF Entry, Inv, TypeOK, LoadsInBounds, Scanned, Correct, HasMatch
<1>2. CASE Loop
  BY <1>2, <1>0 DEF Loop, Inv, TypeOK, LoadsInBounds, Scanned, Correct, HasMatch
<1>3. CASE Bytes
  BY <1>3 DEF Bytes, Inv, TypeOK, LoadsInBounds, Scanned, Correct, HasMatch, IsFirstFrom
<1>4. CASE UNCHANGED vars
  BY <1>4 DEF vars, Inv, TypeOK, LoadsInBounds, Scanned, Correct, HasMatch
<1> QED BY <1>1, <1>2, <1>3, <1>4 DEF Next

THEOREM Safety == Spec => []Inv
  BY InitInv, NextInv, PTL DEF Spec
=============================================================================
