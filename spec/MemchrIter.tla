----------------------------- MODULE MemchrIter -----------------------------
(***************************************************************************)
(* L-layer model of generic::Iter (src/arch/generic/memchr.rs), the state  *)
(* machine behind Memchr/Memchr2/Memchr3 and every One/Two/Three::iter:    *)
(* a window [lo, hi) over the haystack,                                    *)
(*   next      : found = find(lo, hi);  lo := found + 1                    *)
(*   next_back : found = rfind(lo, hi); hi := found                        *)
(*   size_hint : (0, Some(hi - lo))                                        *)
(*   count     : count(lo, hi)                                             *)
(*   clone     : same (lo, hi)                                             *)
(* The haystack is a sequence over {0,1} (1 = matches some needle).        *)
(* This is an action-style specification: the caller's choice of           *)
(* next / next_back is the nondeterminism, and `hist` records the call     *)
(* history so that every call ORDER is a distinct behaviour that TLC       *)
(* visits (and emits for replay).                                          *)
(***************************************************************************)
EXTENDS IterCore, TLC, Json

CONSTANTS MinLen, MaxLen,  \* haystack lengths MinLen..MaxLen, all contents
          ExtraNones,    \* how many None results are observed before a behaviour ends
          Emit

VARIABLES hay, lo, hi, hist, nones

vars == <<hay, lo, hi, hist, nones>>

M == {1}
Remaining == CountIn(hay, M, lo, hi)

Init ==
  /\ hay \in Seqs({0, 1}, MinLen, MaxLen)
  /\ lo = 0 /\ hi = Len(hay)
  /\ hist = <<>> /\ nones = 0

Rec(op, r, l, h) == [op |-> op, ret |-> r, rem |-> CountIn(hay, M, l, h), up |-> h - l]

CallNext ==
  /\ nones < ExtraNones
  /\ LET x == IT_Next(hay, M, [lo |-> lo, hi |-> hi]) IN
     /\ lo' = x.w.lo
     /\ hi' = x.w.hi
     /\ nones' = IF x.ret >= 0 THEN nones ELSE nones + 1
     /\ hist' = Append(hist, Rec("next", x.ret, x.w.lo, x.w.hi))
  /\ UNCHANGED hay

CallNextBack ==
  /\ nones < ExtraNones
  /\ LET x == IT_NextBack(hay, M, [lo |-> lo, hi |-> hi]) IN
     /\ hi' = x.w.hi
     /\ lo' = x.w.lo
     /\ nones' = IF x.ret >= 0 THEN nones ELSE nones + 1
     /\ hist' = Append(hist, Rec("next_back", x.ret, x.w.lo, x.w.hi))
  /\ UNCHANGED hay

Next == CallNext \/ CallNextBack
Spec == Init /\ [][Next]_vars

-----------------------------------------------------------------------------
Yielded(op) == {hist[i].ret : i \in {j \in 1..Len(hist) : hist[j].op = op /\ hist[j].ret >= 0}}
AllYielded == Yielded("next") \cup Yielded("next_back")
SubHist(op) == SelectSeq(hist, LAMBDA e : e.op = op /\ e.ret >= 0)

WindowOK == 0 <= lo /\ lo <= hi /\ hi <= Len(hay)
OnlyMatches == AllYielded \subseteq MatchSet(hay, M)
FrontAscending == \A i, j \in 1..Len(SubHist("next")) : i < j => SubHist("next")[i].ret < SubHist("next")[j].ret
BackDescending == \A i, j \in 1..Len(SubHist("next_back")) : i < j => SubHist("next_back")[i].ret > SubHist("next_back")[j].ret
NoDuplicate == Cardinality(AllYielded) = Len(SelectSeq(hist, LAMBDA e : e.ret >= 0))
\* what has not been yielded yet is exactly what is inside the window
WindowIsRest == MatchSet(hay, M) \ AllYielded = {p \in MatchSet(hay, M) : lo <= p /\ p < hi}
ExactlyAllWhenDrained == nones > 0 => AllYielded = MatchSet(hay, M)
NoneForever == \A i, j \in 1..Len(hist) : (i < j /\ hist[i].ret < 0) => hist[j].ret < 0
HintBrackets == \A i \in 1..Len(hist) : 0 <= hist[i].rem /\ hist[i].rem <= hist[i].up
CountIsRemaining == Remaining = Cardinality(MatchSet(hay, M) \ AllYielded)

Vector == [m |-> "iter", len |-> Len(hay), pts |-> MatchSet(hay, M), ops |-> hist]
EmitReplay == (Emit /\ nones = ExtraNones) => PrintT(<<"REPLAY", ToJson(Vector)>>)
=============================================================================
