//! S->I replay of substring vectors ("mm": needle, haystack, expected find /
//! rfind / greedy sequences from the P-layer) on the whole substring API:
//! top-level functions, Finder/FinderRev (+ builder, rankers, prefilter
//! settings, clone/as_ref/into_owned), iterators with size_hint, and the
//! low-level building blocks (Two-Way, Rabin-Karp, Shift-Or, packed pair).
//! Vectors are executed 1:1 and lifted by synchronising block substitution
//! (symbol a -> a pad^(s-1)) plus pad-byte padding; the expected answers are
//! the model's mapped through i -> pl + s*i (lemma LiftLemma of MC_Lift.tla).
use crate::util::*;
use memchr::arch::all::packedpair::HeuristicFrequencyRank;
use memchr::memmem::{self, FinderBuilder, Prefilter};
use serde_json::{json, Value};

#[derive(Clone)]
pub struct TableRank(pub [u8; 256]);
impl HeuristicFrequencyRank for TableRank {
    fn rank(&self, b: u8) -> u8 {
        self.0[b as usize]
    }
}

pub fn ranker(kind: usize, needle: &[u8], seed: u64) -> (String, TableRank) {
    let mut t = [0u8; 256];
    let name = match kind % 7 {
        0 => "const0".to_string(),
        1 => {
            t = [255; 256];
            "const255".into()
        }
        2 => {
            for i in 0..256 {
                t[i] = i as u8;
            }
            "identity".into()
        }
        3 => {
            for i in 0..256 {
                t[i] = 255 - i as u8;
            }
            "reversed".into()
        }
        4 => {
            let mut r = Rng::new(seed);
            for i in 0..256 {
                t[i] = r.byte();
            }
            format!("random{seed}")
        }
        5 => {
            for &b in needle {
                t[b as usize] = 255;
            }
            "needle-commonest".into()
        }
        _ => {
            t = [255; 256];
            for &b in needle {
                t[b as usize] = 0;
            }
            "needle-rarest".into()
        }
    };
    (name, TableRank(t))
}

#[derive(Clone, Debug)]
pub struct Lift {
    pub s: usize,
    pub pl: usize,
    pub pr: usize,
    /// position of the symbol inside its block of `s` bytes (block = pad^q a pad^(s-1-q)); with q = s-1 lifted
    /// needles end with a real symbol, so that rare-byte offsets can lie in the needle's last bytes
    pub q: usize,
    pub map: [u8; 3],
    pub pad: u8,
}

const MAPS: &[([u8; 3], u8)] = &[
    ([b'a', b'b', b'c'], b'z'),
    ([0x00, 0x01, 0x02], 0xFF),
    ([0xFF, 0x00, 0x80], 0x7F),
    ([0x41, 0x01, 0x81], 0xC1), // all equal mod 64 (Two-Way byteset collisions)
    ([b' ', b'e', b't'], b'q'),
    ([0x80, 0xC0, 0x40], 0x00), // equal mod 64
    ([b'\n', b'\r', b'\t'], b'x'),
];
const SCALES: &[usize] = &[1, 3, 7, 9, 17, 2, 33, 64, 5, 52];
const PADS: &[(usize, usize)] = &[(0, 0), (13, 0), (0, 20), (16, 16), (64, 3), (3, 64), (1, 1), (40, 40), (100, 0), (0, 130)];

pub fn lift_for(j: usize, k: usize) -> Lift {
    let (map, pad) = MAPS[(j + k) % MAPS.len()];
    // the first lifts keep the block size 1 and only pad (the pad byte lies outside the needle's byte
    // set): the same abstract behaviour then runs through the >= 16 and >= 64 byte routes
    match k {
        0 => return Lift { s: 1, pl: 0, pr: 0, q: 0, map, pad },
        1 => return Lift { s: 1, pl: 16 + j % 3, pr: 0, q: 0, map, pad },
        2 => return Lift { s: 1, pl: j % 2, pr: 64 + j % 5, q: 0, map, pad },
        3 => return Lift { s: 1, pl: 64, pr: 16, q: 0, map, pad },
        _ => {}
    }
    let s = SCALES[(j / 3 + k) % SCALES.len()];
    let (pl, pr) = PADS[(j / 5 + k) % PADS.len()];
    let q = [0, s - 1, s / 2][(j / 2 + k) % 3];
    Lift { s, pl, pr, q, map, pad }
}

impl Lift {
    pub fn seq(&self, x: &[u8]) -> Vec<u8> {
        let mut v = Vec::with_capacity(x.len() * self.s);
        for &c in x {
            for _ in 0..self.q {
                v.push(self.pad);
            }
            v.push(self.map[c as usize]);
            for _ in self.q + 1..self.s {
                v.push(self.pad);
            }
        }
        v
    }
    pub fn hay(&self, h: &[u8]) -> Vec<u8> {
        let mut v = vec![self.pad; self.pl];
        v.extend(self.seq(h));
        v.extend(std::iter::repeat(self.pad).take(self.pr));
        v
    }
    pub fn idx(&self, i: i64) -> i64 {
        if i < 0 {
            -1
        } else {
            self.pl as i64 + self.s as i64 * i
        }
    }
    pub fn json(&self) -> Value {
        json!({"s": self.s, "pl": self.pl, "pr": self.pr, "q": self.q, "map": self.map, "pad": self.pad})
    }
}

pub struct Groups {
    pub find: bool,
    pub rfind: bool,
    pub iter: bool,
    pub riter: bool,
    pub blocks: bool,
    pub cfg: bool,
    pub objects: bool,
}
impl Groups {
    pub fn parse(s: &str) -> Groups {
        let has = |x: &str| s.split(',').any(|y| y == x || y == "all");
        Groups { find: has("find"), rfind: has("rfind"), iter: has("iter"), riter: has("riter"), blocks: has("blocks"), cfg: has("cfg"), objects: has("objects") }
    }
}

pub struct Opts {
    pub lifts: usize,
    pub groups: Groups,
    pub seed: u64,
    pub force: String,
}

struct Case<'a> {
    rep: &'a Report,
    v: &'a Value,
    lift: &'a Lift,
    force: &'a str,
}
impl<'a> Case<'a> {
    fn ctx(&self, entry: &str) -> Value {
        json!({"vector": self.v, "run": {"entry": entry, "lift": self.lift.json(), "force": self.force}})
    }
    fn check(&self, cnt: &mut Counts, entry: &str, got: Result<i64, String>, want: i64) {
        cnt.add("mm_exec", 1);
        match got {
            Err(m) => self.rep.finding(Class::Panic, &format!("{entry} panicked: {m}"), self.ctx(entry)),
            Ok(g) if g != want => self.rep.finding(Class::Result, &format!("{entry} returned {g}, oracle {want}"), self.ctx(entry)),
            _ => {}
        }
    }
    fn check_seq(&self, cnt: &mut Counts, entry: &str, got: Result<Vec<i64>, String>, want: &[i64]) {
        cnt.add("mm_exec", 1);
        match got {
            Err(m) => self.rep.finding(Class::Panic, &format!("{entry} panicked: {m}"), self.ctx(entry)),
            Ok(g) if g != want => self.rep.finding(Class::Result, &format!("{entry} yielded {:?}, oracle {:?}", trunc(&g), trunc(want)), self.ctx(entry)),
            _ => {}
        }
    }
    fn alloc(&self, entry: &str, n: u64) {
        if n != 0 {
            self.rep.finding(Class::Alloc, &format!("{entry} performed {n} heap allocation(s)"), self.ctx(entry));
        }
    }
}

fn trunc(v: &[i64]) -> Vec<i64> {
    v.iter().take(12).cloned().collect()
}

/// Run `f` and return (result, number of heap allocations it performed on this thread).
fn counted<T>(f: impl FnOnce() -> T) -> (Result<T, String>, u64) {
    let a0 = allocs();
    let r = guard(f);
    let a1 = allocs();
    (r, a1 - a0)
}

/// Drive a forward iterator to exhaustion: yielded offsets, hint failures, allocations.
fn drive_iter<I: Iterator<Item = usize>>(mut it: I, total: usize, limit: usize) -> (Vec<i64>, Vec<String>, u64) {
    let mut out = Vec::new();
    let mut bad = Vec::new();
    let mut al = 0;
    let check_hint = |it: &I, yielded: usize, bad: &mut Vec<String>| {
        let rem = total.saturating_sub(yielded);
        let (lo, up) = it.size_hint();
        if lo > rem || up.map_or(false, |u| u < rem) {
            bad.push(format!("after {yielded} items size_hint ({lo},{up:?}) does not bracket the {rem} remaining matches"));
        }
    };
    check_hint(&it, 0, &mut bad);
    loop {
        let a0 = allocs();
        let x = it.next();
        al += allocs() - a0;
        match x {
            Some(i) => {
                out.push(i as i64);
                check_hint(&it, out.len(), &mut bad);
                if out.len() > limit {
                    bad.push("iterator did not terminate".to_string());
                    break;
                }
            }
            None => break,
        }
    }
    check_hint(&it, out.len(), &mut bad);
    for k in 0..2 {
        if let Some(i) = it.next() {
            bad.push(format!("next() after None returned Some({i}) (call {k})"));
        }
        check_hint(&it, out.len(), &mut bad);
    }
    (out, bad, al)
}

pub fn replay_one(idx: usize, v: &Value, rep: &Report, cnt: &mut Counts, o: &Opts) {
    let ns = get_bytes(v, "n");
    let hs = get_bytes(v, "h");
    let find = get_i(v, "find");
    let rfind = get_i(v, "rfind");
    let fwd = get_ints(v, "fwd");
    let rev = get_ints(v, "rev");
    let j = idx.wrapping_add(o.seed as usize);
    let nlifts = if ns.is_empty() { 1 } else { o.lifts };
    for k in 0..nlifts {
        let lift = lift_for(j, k);
        let n = lift.seq(&ns);
        let h = lift.hay(&hs);
        let c = Case { rep, v, lift: &lift, force: &o.force };
        let wfind = lift.idx(find);
        let wrfind = if ns.is_empty() { rfind } else { lift.idx(rfind) };
        let wfwd: Vec<i64> = fwd.iter().map(|&i| lift.idx(i)).collect();
        let wrev: Vec<i64> = rev.iter().map(|&i| lift.idx(i)).collect();
        let g = &o.groups;
        if g.find {
            let (r, a) = counted(|| memmem::find(&h, &n));
            c.check(cnt, "memmem::find", r.map(opt_to_i), wfind);
            c.alloc("memmem::find", a);
            let (f, a) = counted(|| memmem::Finder::new(&n));
            c.alloc("Finder::new", a);
            if let Ok(f) = f {
                let (r, a) = counted(|| f.find(&h));
                c.check(cnt, "Finder::find", r.map(opt_to_i), wfind);
                c.alloc("Finder::find", a);
                if f.needle() != &n[..] {
                    rep.finding(Class::Result, "Finder::needle() differs from the construction needle", c.ctx("Finder::needle"));
                }
            } else {
                rep.finding(Class::Panic, "Finder::new panicked", c.ctx("Finder::new"));
            }
            let (r, a) = counted(|| FinderBuilder::new().build_forward(&n).find(&h));
            c.check(cnt, "FinderBuilder::build_forward.find", r.map(opt_to_i), wfind);
            c.alloc("FinderBuilder::build_forward.find", a);
            // TruncLemma (MC_SubOracle): boundary prefixes of the haystack -- the occurrence ends one byte past / exactly
            // at / one byte before the end, and the haystack loses its last byte
            if !n.is_empty() {
                let mut ls: Vec<usize> = Vec::new();
                if wfind >= 0 {
                    let e = wfind as usize + n.len();
                    ls.extend([e - 1, e, e + 1]);
                }
                ls.push(h.len().saturating_sub(1));
                ls.retain(|&l| l < h.len());
                ls.sort();
                ls.dedup();
                for l in ls {
                    let want = if wfind >= 0 && wfind as usize + n.len() <= l { wfind } else { -1 };
                    let r = guard(|| memmem::find(&h[..l], &n));
                    c.check(cnt, &format!("memmem::find[prefix of {l} bytes]"), r.map(opt_to_i), want);
                    let r = guard(|| memmem::Finder::new(&n).find(&h[..l]));
                    c.check(cnt, &format!("Finder::find[prefix of {l} bytes]"), r.map(opt_to_i), want);
                }
            }
            // which strategy of the meta searcher served this search (coverage measurement only, from the step counters)
            {
                memchr::verif::start(&[]);
                let _ = guard(|| memmem::Finder::new(&n).find(&h));
                let (_, t) = memchr::verif::stop();
                use memchr::verif::{T_PP, T_PRE, T_RK, T_TW};
                let route = if n.is_empty() {
                    "route.empty"
                } else if n.len() == 1 {
                    "route.onebyte"
                } else if h.len() < n.len() {
                    "route.haystack_shorter"
                } else if t[T_PP] > 0 && t[T_TW] == 0 {
                    "route.packed"
                } else if t[T_TW] > 0 && t[T_PRE] > 0 && t[T_PP] > 0 {
                    "route.twoway+vector_prefilter"
                } else if t[T_TW] > 0 && t[T_PRE] > 0 {
                    "route.twoway+simple_or_fallback_prefilter"
                } else if t[T_TW] > 0 {
                    "route.twoway"
                } else if t[T_RK] > 0 {
                    "route.rabinkarp"
                } else {
                    "route.other"
                };
                cnt.add(route, 1);
            }
            // an owned finder: only the conversion itself may allocate
            #[cfg(feature = "alloc")]
            if let Ok(own) = guard(|| memmem::Finder::new(&n).into_owned()) {
                let (r, a) = counted(|| own.find(&h));
                c.check(cnt, "Finder::into_owned().find", r.map(opt_to_i), wfind);
                c.alloc("Finder::into_owned().find", a);
                let (r, a) = counted(|| own.as_ref().find(&h));
                c.check(cnt, "Finder::into_owned().as_ref().find", r.map(opt_to_i), wfind);
                c.alloc("Finder::into_owned().as_ref().find", a);
                let (r, a) = counted(|| own.find_iter(&h).next());
                c.check(cnt, "Finder::into_owned().find_iter().next", r.map(opt_to_i), wfind);
                c.alloc("Finder::into_owned().find_iter().next", a);
            }
        }
        if g.cfg {
            // C10: prefilter setting x ranker table
            for pf in 0..2 {
                let pfc = if pf == 0 { Prefilter::None } else { Prefilter::Auto };
                let rk = (j + k + pf) % 7;
                for rr in [rk, (rk + 3) % 7] {
                    let (name, table) = ranker(rr, &n, o.seed.wrapping_add(idx as u64));
                    let entry = format!("build_forward_with_ranker[{name},prefilter={}]", if pf == 0 { "None" } else { "Auto" });
                    // construction from a borrowed needle with a caller-supplied ranker (a 256-byte table, not zero
                    // sized) and the search: no heap allocation (the collected iteration below is the harness's own Vec)
                    let (r0, a) = counted(|| {
                        let f = FinderBuilder::new().prefilter(pfc).build_forward_with_ranker(table.clone(), &n);
                        opt_to_i(f.find(&h))
                    });
                    if r0.is_ok() {
                        c.alloc(&format!("{entry} (construction + find)"), a);
                    }
                    let r = guard(|| {
                        let f = FinderBuilder::new().prefilter(pfc).build_forward_with_ranker(table, &n);
                        (opt_to_i(f.find(&h)), f.find_iter(&h).map(|x| x as i64).take(h.len() + 2).collect::<Vec<_>>())
                    });
                    match r {
                        Err(m) => rep.finding(Class::Panic, &format!("{entry} panicked: {m}"), c.ctx(&entry)),
                        Ok((fi, seq)) => {
                            c.check(cnt, &format!("{entry}.find"), Ok(fi), wfind);
                            c.check_seq(cnt, &format!("{entry}.find_iter"), Ok(seq), &wfwd);
                        }
                    }
                }
            }
        }
        if g.rfind {
            let (r, a) = counted(|| memmem::rfind(&h, &n));
            c.check(cnt, "memmem::rfind", r.map(opt_to_i), wrfind);
            c.alloc("memmem::rfind", a);
            let (f, a) = counted(|| memmem::FinderRev::new(&n));
            c.alloc("FinderRev::new", a);
            if let Ok(f) = f {
                let (r, a) = counted(|| f.rfind(&h));
                c.check(cnt, "FinderRev::rfind", r.map(opt_to_i), wrfind);
                c.alloc("FinderRev::rfind", a);
                if f.needle() != &n[..] {
                    rep.finding(Class::Result, "FinderRev::needle() differs from the construction needle", c.ctx("FinderRev::needle"));
                }
            }
            // TruncLemma, mirrored: boundary suffixes of the haystack
            if !n.is_empty() {
                let mut cuts: Vec<usize> = vec![1];
                if wrfind >= 0 {
                    let b = wrfind as usize;
                    cuts.extend([b.saturating_sub(1), b, b + 1]);
                }
                cuts.retain(|&c_| c_ > 0 && c_ <= h.len());
                cuts.sort();
                cuts.dedup();
                for cut in cuts {
                    let want = if wrfind >= 0 && wrfind as usize >= cut { wrfind - cut as i64 } else { -1 };
                    let r = guard(|| memmem::rfind(&h[cut..], &n));
                    c.check(cnt, &format!("memmem::rfind[suffix from {cut}]"), r.map(opt_to_i), want);
                    let r = guard(|| memmem::FinderRev::new(&n).rfind(&h[cut..]));
                    c.check(cnt, &format!("FinderRev::rfind[suffix from {cut}]"), r.map(opt_to_i), want);
                }
            }
            let (r, _) = counted(|| FinderBuilder::new().build_reverse(&n).rfind(&h));
            c.check(cnt, "FinderBuilder::build_reverse.rfind", r.map(opt_to_i), wrfind);
            #[cfg(feature = "alloc")]
            if let Ok(own) = guard(|| memmem::FinderRev::new(&n).into_owned()) {
                let (r, a) = counted(|| own.rfind(&h));
                c.check(cnt, "FinderRev::into_owned().rfind", r.map(opt_to_i), wrfind);
                c.alloc("FinderRev::into_owned().rfind", a);
                let (r, a) = counted(|| own.as_ref().rfind(&h));
                c.check(cnt, "FinderRev::into_owned().as_ref().rfind", r.map(opt_to_i), wrfind);
                c.alloc("FinderRev::into_owned().as_ref().rfind", a);
                let (r, a) = counted(|| own.rfind_iter(&h).next());
                c.check(cnt, "FinderRev::into_owned().rfind_iter().next", r.map(opt_to_i), wrfind);
                c.alloc("FinderRev::into_owned().rfind_iter().next", a);
            }
        }
        if g.iter && (!ns.is_empty() || k == 0) {
            let total = wfwd.len();
            // constructing the one-shot iterators from borrowed slices (and taking the first item) allocates nothing
            let (r0, a) = counted(|| memmem::find_iter(&h, &n).next());
            if r0.is_ok() {
                c.alloc("memmem::find_iter (construction + first next)", a);
            }
            let (r0, a) = counted(|| memmem::rfind_iter(&h, &n).next());
            if r0.is_ok() {
                c.alloc("memmem::rfind_iter (construction + first next)", a);
            }
            let r = guard(|| drive_iter(memmem::find_iter(&h, &n), total, h.len() + 2));
            iter_outcome(&c, cnt, "memmem::find_iter", r, &wfwd);
            let r = guard(|| {
                let f = memmem::Finder::new(&n);
                drive_iter(f.find_iter(&h), total, h.len() + 2)
            });
            iter_outcome(&c, cnt, "Finder::find_iter", r, &wfwd);
            #[cfg(feature = "alloc")]
            {
                let r = guard(|| {
                    let it = memmem::find_iter(&h, &n).into_owned();
                    let (a, b, _) = drive_iter(it, total, h.len() + 2);
                    (a, b, 0)
                });
                iter_outcome(&c, cnt, "find_iter.into_owned", r, &wfwd);
                // conversion in the middle of the iteration: the owned iterator continues the same sequence
                let r = guard(|| {
                    let mut it = memmem::find_iter(&h, &n);
                    let cut = (j + k) % (total + 2);
                    let mut head = Vec::new();
                    for _ in 0..cut {
                        match it.next() {
                            Some(i) => head.push(i as i64),
                            None => break,
                        }
                    }
                    let (rest, bad, _) = drive_iter(it.into_owned(), total.saturating_sub(head.len()), h.len() + 2);
                    head.extend(rest);
                    (head, bad, 0)
                });
                iter_outcome(&c, cnt, "find_iter[after some items].into_owned", r, &wfwd);
            }
        }
        if g.riter && (!ns.is_empty() || k == 0) {
            let r = guard(|| {
                let mut it = memmem::rfind_iter(&h, &n);
                let mut out = Vec::new();
                let mut bad = Vec::new();
                let mut al = 0;
                loop {
                    let a0 = allocs();
                    let x = it.next();
                    al += allocs() - a0;
                    match x {
                        Some(i) => {
                            out.push(i as i64);
                            if out.len() > h.len() + 2 {
                                bad.push("iterator did not terminate".to_string());
                                break;
                            }
                        }
                        None => break,
                    }
                }
                for _ in 0..2 {
                    if let Some(i) = it.next() {
                        bad.push(format!("next() after None returned Some({i})"));
                    }
                }
                (out, bad, al)
            });
            iter_outcome(&c, cnt, "memmem::rfind_iter", r, &wrev);
            let r = guard(|| {
                let f = memmem::FinderRev::new(&n);
                let v: Vec<i64> = f.rfind_iter(&h).map(|x| x as i64).take(h.len() + 3).collect();
                (v, Vec::new(), 0)
            });
            iter_outcome(&c, cnt, "FinderRev::rfind_iter", r, &wrev);
        }
        if g.blocks {
            blocks(&c, cnt, &n, &h, wfind, wrfind);
        }
        if g.objects {
            objects(&c, cnt, &n, &h, wfind, wrfind, &wfwd, &wrev, j + k);
        }
    }
}

fn iter_outcome(c: &Case, cnt: &mut Counts, entry: &str, r: Result<(Vec<i64>, Vec<String>, u64), String>, want: &[i64]) {
    match r {
        Err(m) => {
            cnt.add("mm_exec", 1);
            c.rep.finding(Class::Panic, &format!("{entry} panicked: {m}"), c.ctx(entry))
        }
        Ok((seq, bad, al)) => {
            c.check_seq(cnt, entry, Ok(seq), want);
            for b in bad {
                c.rep.finding(Class::Result, &format!("{entry}: {b}"), c.ctx(entry));
            }
            c.alloc(entry, al);
        }
    }
}

/// The public low-level building blocks on their documented domains (C12), and
/// the soundness of the public prefilters (C11).
fn blocks(c: &Case, cnt: &mut Counts, n: &[u8], h: &[u8], wfind: i64, wrfind: i64) {
    use memchr::arch::all::{packedpair, rabinkarp, twoway};
    c.check(cnt, "twoway::Finder::find", guard(|| opt_to_i(twoway::Finder::new(n).find(h, n))), wfind);
    c.check(cnt, "twoway::FinderRev::rfind", guard(|| opt_to_i(twoway::FinderRev::new(n).rfind(h, n))), wrfind);
    c.check(cnt, "rabinkarp::Finder::find", guard(|| opt_to_i(rabinkarp::Finder::new(n).find(h, n))), wfind);
    c.check(cnt, "rabinkarp::FinderRev::rfind", guard(|| opt_to_i(rabinkarp::FinderRev::new(n).rfind(h, n))), wrfind);
    // constructors report unsupported inputs by returning None: pair offsets out of range or equal
    {
        let nl = n.len();
        let probes = [(0usize, nl), (nl, 0), (nl.saturating_sub(1), nl), (nl, nl + 1), (0, 0), (nl.saturating_sub(1), nl.saturating_sub(1)), (0, 255), (255, 0), (0, nl.saturating_sub(1)), (nl.saturating_sub(1), 0)];
        for (a, b) in probes {
            if a > 255 || b > 255 {
                continue;
            }
            let valid = a < nl && b < nl && a != b;
            cnt.add("mm_exec", 1);
            match guard(|| packedpair::Pair::with_indices(n, a as u8, b as u8).is_some()) {
                Err(m) => c.rep.finding(Class::Panic, &format!("Pair::with_indices({a},{b}) panicked: {m}"), c.ctx("Pair::with_indices")),
                Ok(acc) if acc != valid => c.rep.finding(Class::Result, &format!("Pair::with_indices({a},{b}) on a needle of {nl} bytes: accepted={acc}, but the offsets are {}", if valid { "distinct and in range" } else { "out of range or equal" }), c.ctx("Pair::with_indices")),
                _ => {}
            }
        }
    }
    #[cfg(feature = "alloc")]
    {
        use memchr::arch::all::shiftor;
        match guard(|| shiftor::Finder::new(n).map(|f| opt_to_i(f.find(h)))) {
            Err(m) => c.rep.finding(Class::Panic, &format!("shiftor panicked: {m}"), c.ctx("shiftor")),
            Ok(None) => {
                if n.len() <= 15 {
                    c.rep.finding(Class::Result, "shiftor::Finder::new returned None for a needle of at most 15 bytes", c.ctx("shiftor::Finder::new"));
                }
            }
            Ok(Some(r)) => {
                if n.len() > 15 {
                    c.rep.finding(Class::Result, "shiftor::Finder::new accepted a needle longer than 15 bytes", c.ctx("shiftor::Finder::new"));
                } else {
                    c.check(cnt, "shiftor::Finder::find", Ok(r), wfind);
                }
            }
        }
    }
    let pre_check = |entry: &str, cand: Result<Option<usize>, String>, i1: usize, i2: usize, cnt: &mut Counts| {
        cnt.add("prefilter_exec", 1);
        match cand {
            Err(m) => c.rep.finding(Class::Panic, &format!("{entry} panicked: {m}"), c.ctx(entry)),
            Ok(None) => {
                if wfind >= 0 {
                    c.rep.finding(Class::Result, &format!("{entry} returned None but the needle occurs at {wfind}"), c.ctx(entry));
                }
            }
            Ok(Some(p)) => {
                if wfind >= 0 && p as i64 > wfind {
                    c.rep.finding(Class::Result, &format!("{entry} returned candidate {p} past the first occurrence {wfind}"), c.ctx(entry));
                }
                if p + i1 >= h.len() || p + i2 >= h.len() || h[p + i1] != n[i1] || h[p + i2] != n[i2] {
                    c.rep.finding(Class::Result, &format!("{entry} returned candidate {p} where the pair bytes are not present"), c.ctx(entry));
                }
            }
        }
    };
    if n.len() >= 2 {
        if let Some(f) = guard(|| packedpair::Finder::new(n)).unwrap_or_else(|m| {
            c.rep.finding(Class::Panic, &format!("all::packedpair::Finder::new panicked: {m}"), c.ctx("all::packedpair::Finder::new"));
            None
        }) {
            let (i1, i2) = (f.pair().index1() as usize, f.pair().index2() as usize);
            pre_check("all::packedpair::find_prefilter", guard(|| f.find_prefilter(h)), i1, i2, cnt);
        }
        #[cfg(verif_x86)]
        {
            use memchr::arch::x86_64::{avx2, sse2};
            if let Some(f) = guard(|| sse2::packedpair::Finder::new(n)).unwrap_or_else(|m| {
            c.rep.finding(Class::Panic, &format!("sse2::packedpair::Finder::new panicked: {m}"), c.ctx("sse2::packedpair::Finder::new"));
            None
        }) {
                if h.len() >= f.min_haystack_len() {
                    c.check(cnt, "sse2::packedpair::find", guard(|| opt_to_i(f.find(h, n))), wfind);
                    let (i1, i2) = (f.pair().index1() as usize, f.pair().index2() as usize);
                    pre_check("sse2::packedpair::find_prefilter", guard(|| f.find_prefilter(h)), i1, i2, cnt);
                }
            }
            if let Some(f) = guard(|| avx2::packedpair::Finder::new(n)).unwrap_or_else(|m| {
            c.rep.finding(Class::Panic, &format!("avx2::packedpair::Finder::new panicked: {m}"), c.ctx("avx2::packedpair::Finder::new"));
            None
        }) {
                if h.len() >= f.min_haystack_len() {
                    c.check(cnt, "avx2::packedpair::find", guard(|| opt_to_i(f.find(h, n))), wfind);
                    let (i1, i2) = (f.pair().index1() as usize, f.pair().index2() as usize);
                    pre_check("avx2::packedpair::find_prefilter", guard(|| f.find_prefilter(h)), i1, i2, cnt);
                }
            }
        }
        #[cfg(verif_wasm)]
        {
            use memchr::arch::wasm32::simd128;
            if let Some(f) = guard(|| simd128::packedpair::Finder::new(n)).unwrap_or_else(|m| {
            c.rep.finding(Class::Panic, &format!("simd128::packedpair::Finder::new panicked: {m}"), c.ctx("simd128::packedpair::Finder::new"));
            None
        }) {
                if h.len() >= f.min_haystack_len() {
                    c.check(cnt, "simd128::packedpair::find", guard(|| opt_to_i(f.find(h, n))), wfind);
                    let (i1, i2) = (f.pair().index1() as usize, f.pair().index2() as usize);
                    pre_check("simd128::packedpair::find_prefilter", guard(|| f.find_prefilter(h)), i1, i2, cnt);
                }
            }
        }
        #[cfg(target_arch = "aarch64")]
        {
            use memchr::arch::aarch64::neon;
            if let Some(f) = guard(|| neon::packedpair::Finder::new(n)).unwrap_or_else(|m| {
            c.rep.finding(Class::Panic, &format!("neon::packedpair::Finder::new panicked: {m}"), c.ctx("neon::packedpair::Finder::new"));
            None
        }) {
                if h.len() >= f.min_haystack_len() {
                    c.check(cnt, "neon::packedpair::find", guard(|| opt_to_i(f.find(h, n))), wfind);
                    let (i1, i2) = (f.pair().index1() as usize, f.pair().index2() as usize);
                    pre_check("neon::packedpair::find_prefilter", guard(|| f.find_prefilter(h)), i1, i2, cnt);
                }
            }
        }
    }
}

/// C16: reuse, clone, as_ref, into_owned -- the object's answers depend only on its needle.
fn objects(c: &Case, cnt: &mut Counts, n: &[u8], h: &[u8], wfind: i64, wrfind: i64, wfwd: &[i64], wrev: &[i64], j: usize) {
    // a haystack searched in between that makes the prefilter work hard (dense false candidates)
    let noise: Vec<u8> = (0..300).map(|i| n[i % n.len().max(1)..].first().copied().unwrap_or(b'x')).collect();
    let r = guard(|| {
        let mut needle_buf = n.to_vec();
        let f = memmem::Finder::new(&needle_buf);
        let a = opt_to_i(f.find(h));
        let _ = f.find(&noise);
        let _ = f.find(&noise[..noise.len() / 2]);
        let b = opt_to_i(f.find(h));
        let cl = f.clone();
        let ar = f.as_ref();
        let c1 = opt_to_i(cl.find(h));
        let c2 = opt_to_i(ar.find(h));
        let ok_needle = ar.needle() == n && cl.needle() == n;
        #[cfg(feature = "alloc")]
        let (d, e, ok2) = {
            let own = f.into_owned();
            // the original buffer is overwritten with a different needle and dropped
            for x in needle_buf.iter_mut() {
                *x = x.wrapping_add(1);
            }
            drop(needle_buf);
            let d = opt_to_i(own.find(h));
            let e: Vec<i64> = own.find_iter(h).map(|x| x as i64).take(h.len() + 3).collect();
            (d, e, own.needle() == n)
        };
        #[cfg(not(feature = "alloc"))]
        let (d, e, ok2) = {
            let _ = &mut needle_buf;
            (a, wfwd.to_vec(), true)
        };
        (a, b, c1, c2, d, e, ok_needle && ok2)
    });
    match r {
        Err(m) => c.rep.finding(Class::Panic, &format!("finder object sequence panicked: {m}"), c.ctx("objects")),
        Ok((a, b, c1, c2, d, e, okn)) => {
            c.check(cnt, "Finder::find (first use)", Ok(a), wfind);
            c.check(cnt, "Finder::find (after other haystacks)", Ok(b), wfind);
            c.check(cnt, "Finder::clone().find", Ok(c1), wfind);
            c.check(cnt, "Finder::as_ref().find", Ok(c2), wfind);
            c.check(cnt, "Finder::into_owned().find (original needle buffer overwritten and dropped)", Ok(d), wfind);
            c.check_seq(cnt, "Finder::into_owned().find_iter", Ok(e), wfwd);
            if !okn {
                c.rep.finding(Class::Result, "needle() of a cloned/borrowed/owned finder differs from the construction needle", c.ctx("needle"));
            }
        }
    }
    // reverse finder
    let r = guard(|| {
        let mut needle_buf = n.to_vec();
        let f = memmem::FinderRev::new(&needle_buf);
        let a = opt_to_i(f.rfind(h));
        let _ = f.rfind(&noise);
        let b = opt_to_i(f.rfind(h));
        let c1 = opt_to_i(f.clone().rfind(h));
        let c2 = opt_to_i(f.as_ref().rfind(h));
        #[cfg(feature = "alloc")]
        let (d, e) = {
            let own = f.into_owned();
            for x in needle_buf.iter_mut() {
                *x = x.wrapping_add(1);
            }
            drop(needle_buf);
            (opt_to_i(own.rfind(h)), own.rfind_iter(h).map(|x| x as i64).take(h.len() + 3).collect::<Vec<_>>())
        };
        #[cfg(not(feature = "alloc"))]
        let (d, e) = {
            let _ = &mut needle_buf;
            (a, wrev.to_vec())
        };
        (a, b, c1, c2, d, e)
    });
    match r {
        Err(m) => c.rep.finding(Class::Panic, &format!("reverse finder object sequence panicked: {m}"), c.ctx("objects")),
        Ok((a, b, c1, c2, d, e)) => {
            c.check(cnt, "FinderRev::rfind (first use)", Ok(a), wrfind);
            c.check(cnt, "FinderRev::rfind (after other haystacks)", Ok(b), wrfind);
            c.check(cnt, "FinderRev::clone().rfind", Ok(c1), wrfind);
            c.check(cnt, "FinderRev::as_ref().rfind", Ok(c2), wrfind);
            c.check(cnt, "FinderRev::into_owned().rfind (original needle buffer overwritten and dropped)", Ok(d), wrfind);
            c.check_seq(cnt, "FinderRev::into_owned().rfind_iter", Ok(e), wrev);
        }
    }
    // iterators cloned / converted at a point in the iteration chosen by j
    let cut = if wfwd.is_empty() { 0 } else { j % (wfwd.len() + 1) };
    let r = guard(|| {
        let needle_buf = n.to_vec();
        let mut it = memmem::find_iter(h, &needle_buf);
        let mut head = Vec::new();
        for _ in 0..cut {
            head.push(it.next().map_or(-1, |x| x as i64));
        }
        let cl = it.clone();
        let rest_clone: Vec<i64> = cl.map(|x| x as i64).take(h.len() + 3).collect();
        #[cfg(feature = "alloc")]
        let rest_owned: Vec<i64> = {
            let own = it.into_owned();
            drop(needle_buf);
            own.map(|x| x as i64).take(h.len() + 3).collect()
        };
        #[cfg(not(feature = "alloc"))]
        let rest_owned: Vec<i64> = it.map(|x| x as i64).take(h.len() + 3).collect();
        (head, rest_clone, rest_owned)
    });
    match r {
        Err(m) => c.rep.finding(Class::Panic, &format!("find_iter clone/into_owned sequence panicked: {m}"), c.ctx("objects")),
        Ok((head, rc, ro)) => {
            c.check_seq(cnt, "find_iter prefix", Ok(head), &wfwd[..cut]);
            c.check_seq(cnt, &format!("find_iter.clone() taken after {cut} items"), Ok(rc), &wfwd[cut..]);
            c.check_seq(cnt, &format!("find_iter.into_owned() taken after {cut} items (needle buffer dropped)"), Ok(ro), &wfwd[cut..]);
        }
    }
    let cut = if wrev.is_empty() { 0 } else { j % (wrev.len() + 1) };
    let r = guard(|| {
        let needle_buf = n.to_vec();
        let mut it = memmem::rfind_iter(h, &needle_buf);
        let mut head = Vec::new();
        for _ in 0..cut {
            head.push(it.next().map_or(-1, |x| x as i64));
        }
        let rest_clone: Vec<i64> = it.clone().map(|x| x as i64).take(h.len() + 3).collect();
        #[cfg(feature = "alloc")]
        let rest_owned: Vec<i64> = {
            let own = it.into_owned();
            drop(needle_buf);
            own.map(|x| x as i64).take(h.len() + 3).collect()
        };
        #[cfg(not(feature = "alloc"))]
        let rest_owned: Vec<i64> = it.map(|x| x as i64).take(h.len() + 3).collect();
        (head, rest_clone, rest_owned)
    });
    match r {
        Err(m) => c.rep.finding(Class::Panic, &format!("rfind_iter clone/into_owned sequence panicked: {m}"), c.ctx("objects")),
        Ok((head, rc, ro)) => {
            c.check_seq(cnt, "rfind_iter prefix", Ok(head), &wrev[..cut]);
            c.check_seq(cnt, &format!("rfind_iter.clone() taken after {cut} items"), Ok(rc), &wrev[cut..]);
            c.check_seq(cnt, &format!("rfind_iter.into_owned() taken after {cut} items (needle buffer dropped)"), Ok(ro), &wrev[cut..]);
        }
    }
}

pub fn replay(vs: &[Value], rep: &Report, o: &Opts, threads: usize) {
    memchr::verif::set_force(&o.force);
    let idx: Vec<usize> = (0..vs.len()).collect();
    par_chunks(&idx, threads, |_, ch| {
        let mut cnt = Counts::default();
        for &i in ch {
            replay_one(i, &vs[i], rep, &mut cnt, o);
            cnt.add("vectors", 1);
        }
        rep.merge_counts(&cnt.0);
    });
    for v in vs.iter().rev().take(2) {
        rep.sample(v.clone());
    }
}

// ---------------------------------------------------------------------------
// "obj" vectors (MC_MemmemObjects): operation sequences over a finder, an
// iterator, its clone, into_owned and the death of the needle buffer.

#[cfg(feature = "alloc")]
fn obj_step<'h, 'n>(
    f: &memmem::Finder<'n>,
    it: &mut memmem::FindIter<'h, 'n>,
    cl: &mut Option<memmem::FindIter<'h, 'n>>,
    op: &str,
    k: usize,
    hs: [&'h [u8]; 2],
) -> i64 {
    match op {
        "find" => opt_to_i(f.find(hs[k - 1])),
        "next" => opt_to_i(it.next()),
        "clone" => {
            *cl = Some(it.clone());
            0
        }
        "clone_next" => opt_to_i(cl.as_mut().expect("clone exists").next()),
        _ => panic!("unexpected op {op}"),
    }
}

#[cfg(not(feature = "alloc"))]
pub fn replay_obj_one(_idx: usize, _v: &Value, _rep: &Report, _cnt: &mut Counts, _o: &Opts) {}

#[cfg(feature = "alloc")]
pub fn replay_obj_one(idx: usize, v: &Value, rep: &Report, cnt: &mut Counts, o: &Opts) {
    let ns = get_bytes(v, "n");
    let h1s = get_bytes(v, "h1");
    let h2s = get_bytes(v, "h2");
    let ops: Vec<(String, usize, i64)> = v["ops"].as_array().unwrap().iter().map(|e| (get_s(e, "op").to_string(), get_u(e, "k"), get_i(e, "ret"))).collect();
    let j = idx.wrapping_add(o.seed as usize);
    for k in 0..o.lifts {
        let lift = lift_for(j, k);
        let n = lift.seq(&ns);
        let h1 = lift.hay(&h1s);
        let h2 = lift.hay(&h2s);
        let c = Case { rep, v, lift: &lift, force: &o.force };
        let hs: [&[u8]; 2] = [&h1, &h2];
        let r = guard(|| {
            let mut rets: Vec<i64> = Vec::new();
            let mut buf = n.clone();
            let mut i = 0;
            // stage A: objects borrow `buf`
            let (f2, it2, cl2) = {
                let f = memmem::Finder::new(&buf);
                let mut it = memmem::find_iter(hs[0], &buf);
                let mut cl = None;
                while i < ops.len() && ops[i].0 != "into_owned" {
                    rets.push(obj_step(&f, &mut it, &mut cl, &ops[i].0, ops[i].1, hs));
                    i += 1;
                }
                if i == ops.len() {
                    return rets;
                }
                rets.push(0);
                i += 1;
                (f.into_owned(), it.into_owned(), cl.map(|x| x.into_owned()))
            };
            // stage B: owned objects; the original buffer may die
            let (f, mut it, mut cl) = (f2, it2, cl2);
            let mut buf_alive = Some(std::mem::take(&mut buf));
            while i < ops.len() {
                if ops[i].0 == "drop_buffer" {
                    if let Some(mut b) = buf_alive.take() {
                        for x in b.iter_mut() {
                            *x = x.wrapping_add(1);
                        }
                        drop(b);
                    }
                    rets.push(0);
                } else {
                    rets.push(obj_step(&f, &mut it, &mut cl, &ops[i].0, ops[i].1, hs));
                }
                i += 1;
            }
            if f.needle() != &n[..] {
                rets.push(-99);
            }
            rets
        });
        cnt.add("obj_exec", ops.len() as u64);
        match r {
            Err(m) => rep.finding(Class::Panic, &format!("object operation sequence panicked: {m}"), c.ctx("objects")),
            Ok(rets) => {
                if rets.last() == Some(&-99) {
                    rep.finding(Class::Result, "needle() of the owned finder differs from the construction needle", c.ctx("objects"));
                }
                for (i, (op, _, want)) in ops.iter().enumerate() {
                    let want = if matches!(op.as_str(), "find" | "next" | "clone_next") { lift.idx(*want) } else { 0 };
                    if rets.get(i).copied() != Some(want) {
                        rep.finding(Class::Result, &format!("operation {i} ({op}) returned {:?}, model {want}", rets.get(i)), c.ctx("objects"));
                        break;
                    }
                }
            }
        }
    }
}

pub fn replay_obj(vs: &[Value], rep: &Report, o: &Opts, threads: usize) {
    memchr::verif::set_force(&o.force);
    let idx: Vec<usize> = (0..vs.len()).collect();
    par_chunks(&idx, threads, |_, ch| {
        let mut cnt = Counts::default();
        for &i in ch {
            replay_obj_one(i, &vs[i], rep, &mut cnt, o);
            cnt.add("vectors", 1);
        }
        rep.merge_counts(&cnt.0);
    });
    for v in vs.iter().rev().take(2) {
        rep.sample(v.clone());
    }
}
