------------------------------ MODULE ShiftOr ------------------------------
(***************************************************************************)
(* L-layer model of src/arch/all/shiftor.rs.  The Mask register is         *)
(* modelled as the set of bit positions that are 1 (MASKBITS = 16 in the   *)
(* code).  masks[b] has bit i cleared iff needle[i] = b.                   *)
(***************************************************************************)
EXTENDS RabinKarp

CONSTANT MASKBITS

SO_Bits == 0..MASKBITS - 1
SO_MaxNeedle == MASKBITS - 1
SO_Accepts(n) == Len(n) <= SO_MaxNeedle                 \* Finder::new is Some
SO_Mask(n, b) == {i \in SO_Bits : ~(i < Len(n) /\ At(n, i) = b)}
SO_Shl(R) == {i + 1 : i \in {k \in R : k + 1 < MASKBITS}}
RECURSIVE SO_Scan(_, _, _, _)
SO_Scan(h, n, i, R) ==
  IF i >= Len(h) THEN [res |-> -1, steps |-> i]
  ELSE LET R2 == SO_Shl(R \cup SO_Mask(n, At(h, i))) IN
       IF Len(n) \notin R2 THEN [res |-> i + 1 - Len(n), steps |-> i + 1]
       ELSE SO_Scan(h, n, i + 1, R2)
SO_Find(h, n) == IF Len(n) = 0 THEN [res |-> 0, steps |-> 0] ELSE SO_Scan(h, n, 0, SO_Bits \ {0})
=============================================================================
